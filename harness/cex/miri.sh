#!/bin/bash
# usage: miri.sh <repo-path> <prop> <seed> <histories> <len>
# BOUNDED stand-in for what no contract can express (aliasing of live &mut, double drops, use of freed memory, any
# undefined behaviour in the crate's unsafe code): the first <histories> random histories of the search program
# (fault injection on for C10 / C04) are replayed one by one under Miri (nightly, offline).
# exit 0 = Miri saw no undefined behaviour; 1 = it did (history printed); 3 = Miri cannot be run here.
REPO=$(realpath "$1"); PROP=$2; SEED=$3; N=$4; LEN=$5
HERE=$(dirname "$(realpath "$0")")
BASE=${PQ_CEX_WORK:-/tmp}; mkdir -p "$BASE"
WORK=$(mktemp -d "$BASE/pq-miri.XXXXXX"); trap 'rm -rf "$WORK"' EXIT
mkdir -p "$WORK/src"; cp "$HERE/src/main.rs" "$WORK/src/"
sed "s|@REPO@|$REPO|" "$HERE/Cargo.toml.in" > "$WORK/Cargo.toml"
cp /repo/Cargo.lock "$WORK/Cargo.lock" 2>/dev/null || true
export CARGO_TARGET_DIR=${PQ_MIRI_TARGET:-$WORK/target} CARGO_NET_OFFLINE=true PQ_CEX_CHILD=1 PQ_CEX_TRACE=1
export MIRIFLAGS="-Zmiri-disable-isolation -Zmiri-ignore-leaks"
cd "$WORK"
cargo +nightly miri run --offline -q -- replay "$PROP" "$SEED" 0 1 > first.out 2> first.err || true
grep -q "REPLAY\|^  *[0-9]*:" first.out || grep -q "Finished\|Running" first.err || { if ! grep -q "::new()" first.out; then echo "Miri cannot be run here:"; tail -5 first.err; exit 3; fi; }
ub=0; done_n=0
for i in $(seq 0 $((N-1))); do
  l=$((4 + (i * 7) % LEN))
  timeout ${PQ_MIRI_TIMEOUT:-120} cargo +nightly miri run --offline -q -- replay "$PROP" "$SEED" "$i" "$l" > h.out 2> h.err; rc=$?
  [ $rc -eq 124 ] && continue
  done_n=$((done_n+1))
  if grep -q "Undefined Behavior" h.err; then
    echo "FAILING HISTORY under Miri (seed $SEED index $i length $l):"; grep -E "^ +[0-9]+:" h.out
    echo "  => [C04,C09,C10] Miri: $(grep -m1 'Undefined Behavior' h.err | cut -c1-300)"
    grep -m3 -E "^ *--> |inside \`" h.err | cut -c1-200
    echo "REPLAY (under Miri): harness/cex/miri.sh <repo> $PROP $SEED $((i+1)) $LEN"
    ub=1; break
  fi
done
[ $ub -eq 0 ] && echo "Miri: no undefined behaviour in $done_n of $N histories (seed $SEED, at most $LEN operations each)"
exit $ub
