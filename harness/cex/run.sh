#!/bin/bash
# usage: run.sh <repo-path> search <prop|any> <seed> <sequences> <maxlen>   |   run.sh <repo-path> replay <prop|any> <seed> <index> <len>
# Builds the search program against the crate at <repo-path> (debug assertions + overflow checks on; indexmap as in a
# release build) and runs it.  PQ_CEX_TARGET: shared cargo target dir (build + copy of the binary are serialised with
# flock, so concurrent checks against different trees do not run each other's binary); default: private, removed.
REPO=$(realpath "$1"); shift
HERE=$(dirname "$(realpath "$0")")
BASE=${PQ_CEX_WORK:-/tmp}; mkdir -p "$BASE"
WORK=$(mktemp -d "$BASE/pq-cex.XXXXXX")
trap 'rm -rf "$WORK"' EXIT
mkdir -p "$WORK/src"; cp "$HERE/src/main.rs" "$WORK/src/"
sed "s|@REPO@|$REPO|" "$HERE/Cargo.toml.in" > "$WORK/Cargo.toml"
cp /repo/Cargo.lock "$WORK/Cargo.lock" 2>/dev/null || true
export CARGO_TARGET_DIR=${PQ_CEX_TARGET:-$WORK/target} CARGO_NET_OFFLINE=true
mkdir -p "$CARGO_TARGET_DIR"
export CARGO_INCREMENTAL=0
(
  flock 9
  # every tree the program is built against leaves its own artifacts of the crate behind: keep the shared cache small
  if [ "$(du -sm "$CARGO_TARGET_DIR" 2>/dev/null | cut -f1)" -gt 2500 ] 2>/dev/null; then find "$CARGO_TARGET_DIR" -mindepth 1 -maxdepth 1 ! -name '.pq-cex.lock' -exec rm -rf {} +; fi
  rm -f "$CARGO_TARGET_DIR/debug/pq-cex"
  (cd "$WORK" && cargo build --offline -q 2>&1 | grep -E "^error" -A8 | head -20)
  [ -x "$CARGO_TARGET_DIR/debug/pq-cex" ] && cp "$CARGO_TARGET_DIR/debug/pq-cex" "$WORK/pq-cex"
) 9> "$CARGO_TARGET_DIR/.pq-cex.lock"
[ -x "$WORK/pq-cex" ] || { echo "pq-cex does not build against $REPO"; exit 3; }
RUST_BACKTRACE=0 timeout ${PQ_CEX_TIMEOUT:-120} "$WORK/pq-cex" "$@" 2>&1 | tail -n 400
rc=${PIPESTATUS[0]}
if [ $rc -ne 0 ] && [ $rc -ne 1 ]; then echo "the program ended with status $rc (124 = search budget exhausted)"; fi
exit $rc
