#!/bin/bash
# usage: run.sh <repo-path> search <prop|any> <seed> <sequences> <maxlen>   |   run.sh <repo-path> replay <prop|any> <seed> <index> <len>
# Builds the search program against the crate at <repo-path> (debug assertions + overflow checks on) and runs it.
REPO=$(realpath "$1"); shift
HERE=$(dirname "$(realpath "$0")")
WORK=${PQ_CEX_WORK:-$(mktemp -d /tmp/pq-cex.XXXXXX)}
mkdir -p "$WORK/src"; cp "$HERE/src/main.rs" "$WORK/src/"
sed "s|@REPO@|$REPO|" "$HERE/Cargo.toml.in" > "$WORK/Cargo.toml"
cp /repo/Cargo.lock "$WORK/Cargo.lock" 2>/dev/null || true
export CARGO_TARGET_DIR=${PQ_CEX_TARGET:-$WORK/target} CARGO_NET_OFFLINE=true
rm -f "$CARGO_TARGET_DIR/debug/pq-cex"
(cd "$WORK" && cargo build --offline -q 2>&1 | grep -E "^error" -A8 | head -20)
[ -x "$CARGO_TARGET_DIR/debug/pq-cex" ] || { echo "pq-cex does not build against $REPO"; exit 3; }
RUST_BACKTRACE=0 timeout ${PQ_CEX_TIMEOUT:-120} "$CARGO_TARGET_DIR/debug/pq-cex" "$@" 2>&1 | tail -80
rc=${PIPESTATUS[0]}
[ -z "$PQ_CEX_WORK" ] && rm -rf "$WORK"
if [ $rc -ne 0 ] && [ $rc -ne 1 ]; then echo "the program aborted with status $rc (an abort in a debug build is an unsafe-precondition / overflow check of the standard library firing)"; fi
exit $rc
