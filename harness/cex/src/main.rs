//! Counterexample search on the REAL crate (used only after the verifier has reported a failed obligation):
//! model-based random histories over both queue kinds, every observable compared with a plain map model.
//! usage: pq-cex search <prop|any> <seed> <sequences> <maxlen>   |   pq-cex replay <prop|any> <seed> <index> <len>
//! exit 0 = nothing found, 1 = failing history found (printed), other = the crate aborted (reported by run.sh).
use priority_queue::{DoublePriorityQueue, PriorityQueue};
use std::collections::BTreeMap;
use std::hash::{Hash, Hasher};
use std::panic::{catch_unwind, AssertUnwindSafe};

#[derive(Debug, serde::Serialize, serde::Deserialize)]
struct It { id: u16, tag: u32, #[serde(skip, default)] own: Box<u8> }   // `own`: a heap allocation, so that Miri sees a double drop
impl Clone for It { fn clone(&self) -> Self { tick("user Clone::clone"); It { id: self.id, tag: self.tag, own: Box::new(*self.own) } } }
impl PartialEq for It { fn eq(&self, o: &Self) -> bool { tick("user Eq::eq"); self.id == o.id } }
impl Eq for It {}
impl Hash for It { fn hash<H: Hasher>(&self, h: &mut H) { tick("user Hash::hash"); self.id.hash(h) } }

/// priority type whose comparison is user code that can be made to panic (fault injection for C10)
#[derive(Clone, Copy, Debug, PartialEq, Eq, serde::Serialize, serde::Deserialize)]
#[serde(transparent)]
struct Pr(i32);
impl Ord for Pr { fn cmp(&self, o: &Self) -> std::cmp::Ordering { tick("user Ord::cmp"); CMPS.with(|c| c.set(c.get() + 1)); self.0.cmp(&o.0) } }
thread_local! { static CMPS: std::cell::Cell<u64> = std::cell::Cell::new(0); }
fn cmps() -> u64 { CMPS.with(|c| c.get()) }
impl PartialOrd for Pr { fn partial_cmp(&self, o: &Self) -> Option<std::cmp::Ordering> { Some(self.cmp(o)) } }
impl std::ops::AddAssign<i32> for Pr { fn add_assign(&mut self, d: i32) { self.0 += d } }
impl std::ops::SubAssign<i32> for Pr { fn sub_assign(&mut self, d: i32) { self.0 -= d } }
fn pr(v: Vec<(It, i32)>) -> Vec<(It, Pr)> { v.into_iter().map(|(i, p)| (i, Pr(p))).collect() }

thread_local! { static TRIP: std::cell::Cell<u32> = std::cell::Cell::new(0); }
/// when armed with k, the k-th call of user Ord / Hash / Eq code from now on panics
fn tick(what: &str) { TRIP.with(|t| { let v = t.get(); if v > 0 { t.set(v - 1); if v == 1 { panic!("{} (injected)", what) } } }) }

struct Rng(u64);
impl Rng {
    fn next(&mut self) -> u64 { self.0 = self.0.wrapping_mul(6364136223846793005).wrapping_add(1442695040888963407); self.0 >> 33 }
    fn below(&mut self, n: u64) -> u64 { self.next() % n.max(1) }
}

/// legal size_hint variants for extend / collect
struct Hinted<I> { it: I, lo: usize, hi: Option<usize> }
impl<I: Iterator> Iterator for Hinted<I> {
    type Item = I::Item;
    fn next(&mut self) -> Option<I::Item> { self.it.next() }
    fn size_hint(&self) -> (usize, Option<usize>) { (self.lo, self.hi) }
}

type Model = BTreeMap<u16, (u32, i32)>; // id -> (stored tag, priority)

struct Fail { props: String, what: String }
macro_rules! ck { ($c:expr, $p:expr, $($a:tt)*) => { if !($c) { return Err(Fail { props: String::from($p), what: format!($($a)*) }); } } }

/// the queue that `append` emptied is an ordinary empty queue: a few pushes, one removal, and pops in order (C04, C16)
fn reuse_donor<T: Q>(o: &mut T) {
    if o.len() != 0 { return; }
    for j in 0..5u16 { o.push(It { id: 61000 + j, tag: 0, own: Box::new(0) }, (j as i32 * 7) % 5); }
    let gone = o.remove(61001); assert!(gone.map(|x| x.0.id) == Some(61001), "the queue emptied by append misses an item pushed afterwards");
    let mut last = i32::MAX; let mut n = 0;
    while let Some((_, p)) = o.pop_hi() { assert!(p <= last, "the queue emptied by append, refilled, pops {} after {}", p, last); last = p; n += 1; }
    assert!(n == 4 && o.len() == 0, "the queue emptied by append, refilled with 4 elements, popped {}", n);
}

trait Q: Clone {
    fn kind() -> &'static str;
    fn new() -> Self;
    fn len(&self) -> usize;
    fn push(&mut self, i: It, p: i32) -> Option<i32>;
    fn get(&self, id: u16) -> Option<(u32, i32)>;
    fn iter_pairs(&self) -> Vec<(u16, u32, i32)>;
    fn iter_len_hint(&self) -> (usize, (usize, Option<usize>));
    fn extremes(&self) -> (Option<i32>, Option<i32>); // (min if offered, max)
    fn pop_hi(&mut self) -> Option<(It, i32)>;
    fn pop_lo(&mut self) -> Option<(It, i32)>;
    fn change(&mut self, id: u16, p: i32) -> Option<i32>;
    fn change_by(&mut self, id: u16, d: i32) -> bool;
    fn push_inc(&mut self, i: It, p: i32) -> Option<i32>;
    fn push_dec(&mut self, i: It, p: i32) -> Option<i32>;
    fn remove(&mut self, id: u16) -> Option<(It, i32)>;
    fn pop_hi_if(&mut self, newp: i32, accept: bool) -> Option<(It, i32)>;
    fn retain_mut(&mut self, m: u16, d: i32);
    fn iter_mut_rewrite(&mut self, k: usize, d: i32, from_back: bool);
    fn extend_h(&mut self, v: Vec<(It, i32)>, lo: usize, hi: Option<usize>);
    fn append_from(&mut self, v: Vec<(It, i32)>) -> (usize, usize, usize);
    fn clear(&mut self);
    fn drain_k(&mut self, k: usize, forget: bool) -> Vec<(It, i32)>;
    fn sorted_desc(self) -> Vec<It>;
    fn set_tag(&mut self, id: u16, tag: u32) -> bool;
    fn from_vec(v: Vec<(It, i32)>) -> Self;
    fn from_it(v: Vec<(It, i32)>, lo: usize, hi: Option<usize>) -> Self;
    fn roundtrip(&self) -> Result<Self, String>;
    fn from_json(s: &str) -> Result<Self, String>;
    fn de_in_place(&mut self, s: &str) -> Result<(), String>;
    fn to_json(&self) -> String;
    fn same(&self, o: &Self) -> bool;
    fn convert(self) -> Self;
    fn capacity_ops(&mut self, n: usize) -> Result<(), String>;
    fn leak_iter_mut(&mut self, writes: usize);
    fn sorted_iter_lens(self, k: usize) -> Result<(), String>;
    /// std adaptors over iter / into_iter / drain agree with plain next / next_back
    fn adaptors(&mut self, k: usize) -> Result<(), String>;
    /// iter_mut consumed from both ends following `bits`: addresses handed out, and what came after the first None
    fn iter_mut_walk(&mut self, bits: u64, calls: usize) -> Result<(), String>;
    fn retain_all(&mut self, mutable: bool);
    /// write `tag` through peek_mut / peek_max_mut (and peek_min_mut): ids addressed, next to the ids peek / peek_max (peek_min) report
    fn peek_mut_tags(&mut self, tag: u32) -> Vec<(Option<u16>, Option<u16>)>;
    fn clone_from_q(&mut self, o: &Self);
    fn reserve_n(&mut self, n: usize);
    fn append_roomy(&mut self, v: Vec<(It, i32)>, room: usize) -> (usize, usize, usize);
    /// comparison counts of single-element operations and bulk constructions on a queue of n elements
    fn cost_probe(n: usize) -> Result<(), String>;
    fn pop_hi_if_panic(&mut self);
    /// run an operation whose user callback panics at its k-th call (the panic is caught by the caller)
    fn faulty(&mut self, which: u64, k: usize, id: u16);
}

macro_rules! common { ($T:ident) => {
    fn new() -> Self { $T::new() }
    fn len(&self) -> usize { $T::len(self) }
    fn push(&mut self, i: It, p: i32) -> Option<i32> { $T::push(self, i, Pr(p)).map(|x| x.0) }
    fn get(&self, id: u16) -> Option<(u32, i32)> { $T::get(self, &It { id, tag: 0, own: Box::new(0) }).map(|(i, p)| (i.tag, p.0)) }
    fn iter_pairs(&self) -> Vec<(u16, u32, i32)> { self.iter().map(|(i, p)| (i.id, i.tag, p.0)).collect() }
    fn iter_len_hint(&self) -> (usize, (usize, Option<usize>)) { let it = self.iter(); (it.len(), it.size_hint()) }
    fn change(&mut self, id: u16, p: i32) -> Option<i32> { self.change_priority(&It { id, tag: 9999, own: Box::new(0) }, Pr(p)).map(|x| x.0) }
    fn change_by(&mut self, id: u16, d: i32) -> bool { self.change_priority_by(&It { id, tag: 9999, own: Box::new(0) }, |p| *p += d) }
    fn push_inc(&mut self, i: It, p: i32) -> Option<i32> { self.push_increase(i, Pr(p)).map(|x| x.0) }
    fn push_dec(&mut self, i: It, p: i32) -> Option<i32> { self.push_decrease(i, Pr(p)).map(|x| x.0) }
    fn remove(&mut self, id: u16) -> Option<(It, i32)> { $T::remove(self, &It { id, tag: 9999, own: Box::new(0) }).map(|(i, p)| (i, p.0)) }
    fn retain_mut(&mut self, m: u16, d: i32) { $T::retain_mut(self, |i, p| { *p += d * (i.id as i32 % 3 - 1); i.id % m != 0 }) }
    fn extend_h(&mut self, v: Vec<(It, i32)>, lo: usize, hi: Option<usize>) { self.extend(Hinted { it: pr(v).into_iter(), lo, hi }) }
    fn append_from(&mut self, v: Vec<(It, i32)>) -> (usize, usize, usize) { let mut o: Self = pr(v).into_iter().collect(); self.append(&mut o); let left = (o.len(), o.iter().count(), o.iter().len()); reuse_donor(&mut o); left }
    fn clear(&mut self) { $T::clear(self) }
    fn drain_k(&mut self, k: usize, forget: bool) -> Vec<(It, i32)> {
        let mut d = self.drain(); let mut got = vec![]; for _ in 0..k { if let Some(x) = d.next() { got.push((x.0, (x.1).0)); } }
        if forget { std::mem::forget(d); } else { got.extend(d.map(|(i, p)| (i, p.0))); } got }
    fn set_tag(&mut self, id: u16, tag: u32) -> bool { match self.get_mut(&It { id, tag: 0, own: Box::new(0) }) { Some((i, _)) => { i.tag = tag; true } None => false } }
    fn from_vec(v: Vec<(It, i32)>) -> Self { $T::from(pr(v)) }
    fn from_it(v: Vec<(It, i32)>, lo: usize, hi: Option<usize>) -> Self { Hinted { it: pr(v).into_iter(), lo, hi }.collect() }
    fn roundtrip(&self) -> Result<Self, String> { let s = serde_json::to_string(self).map_err(|e| e.to_string())?; serde_json::from_str(&s).map_err(|e| e.to_string()) }
    fn same(&self, o: &Self) -> bool { self == o }
    fn clone_from_q(&mut self, o: &Self) { self.clone_from(o) }
    fn reserve_n(&mut self, n: usize) { self.reserve(n) }
    fn retain_all(&mut self, mutable: bool) { if mutable { $T::retain_mut(self, |_, _| true) } else { $T::retain(self, |_, _| true) } }
    fn append_roomy(&mut self, v: Vec<(It, i32)>, room: usize) -> (usize, usize, usize) {
        let mut o: Self = pr(v).into_iter().collect(); o.reserve(room); self.append(&mut o); let left = (o.len(), o.iter().count(), o.iter().len()); reuse_donor(&mut o); left }
    fn cost_probe(n: usize) -> Result<(), String> {
        let lg = (usize::BITS - n.leading_zeros()) as u64;
        let single = 14 * lg + 24;                // a sift visits <= log2 n levels, <= 7 comparisons per two levels in the min-max heap
        let bulk = 8 * n as u64 + 64;             // Floyd's construction is linear
        let asc: Vec<(It, Pr)> = (0..n).map(|j| (It { id: j as u16, tag: 0, own: Box::new(0) }, Pr(j as i32))).collect();
        macro_rules! cost { ($what:expr, $limit:expr, $e:expr) => { let c0 = cmps(); let _ = $e; let c = cmps() - c0; if std::env::var("PQ_CEX_COSTS").is_ok() { eprintln!("{:55} {:8} / {}", $what, c, $limit); } if c > $limit { return Err(format!("{} on {} elements: {} comparisons, budget {}", $what, n, c, $limit)); } } }
        cost!("from(Vec)", bulk, { let q: Self = $T::from(asc.clone()); q });
        let mut x = 12345u64; let rnd: Vec<(It, Pr)> = (0..n).map(|j| { x = x.wrapping_mul(6364136223846793005).wrapping_add(1442695040888963407); (It { id: j as u16, tag: 0, own: Box::new(0) }, Pr((x >> 40) as i32)) }).collect();
        cost!("from(Vec) with unordered priorities", bulk, { let q: Self = $T::from(rnd.clone()); q });
        cost!("collect() from an unordered iterator", bulk, { let q: Self = rnd.clone().into_iter().collect(); q });
        cost!("collect() from an ascending iterator", bulk, { let q: Self = asc.clone().into_iter().collect(); q });
        let mut q: Self = asc.clone().into_iter().collect();
        cost!("extend with n new pairs", 2 * bulk, q.extend((n..2 * n).map(|j| (It { id: j as u16, tag: 0, own: Box::new(0) }, Pr(j as i32)))));
        let mut q: Self = asc.clone().into_iter().collect();
        cost!("push of a new maximum", single, q.push(It { id: 60000, tag: 0, own: Box::new(0) }, Pr(i32::MAX)));
        cost!("push of a new minimum", single, q.push(It { id: 60001, tag: 0, own: Box::new(0) }, Pr(i32::MIN)));
        cost!("change_priority of the first item to the maximum", single, q.change_priority(&It { id: 0, tag: 0, own: Box::new(0) }, Pr(i32::MAX - 1)));
        cost!("change_priority of the last item to the minimum", single, q.change_priority(&It { id: (n - 1) as u16, tag: 0, own: Box::new(0) }, Pr(i32::MIN + 1)));
        cost!("push_increase", single, q.push_increase(It { id: 5, tag: 0, own: Box::new(0) }, Pr(i32::MAX - 2)));
        cost!("push_decrease", single, q.push_decrease(It { id: 7, tag: 0, own: Box::new(0) }, Pr(i32::MIN + 2)));
        cost!("remove", single, $T::remove(&mut q, &It { id: 9, tag: 0, own: Box::new(0) }));
        cost!("pop_hi", single, Q::pop_hi(&mut q));
        cost!("pop_lo", single, Q::pop_lo(&mut q));
        cost!("pop_if (rejecting, demoting to the minimum)", single, Q::pop_hi_if(&mut q, i32::MIN + 3, false));
        cost!("pop_if (rejecting, unchanged)", single, { let top = q.extremes().1.unwrap(); Q::pop_hi_if(&mut q, top, false) });
        cost!("pop_if (accepting)", single, Q::pop_hi_if(&mut q, 0, true));
        cost!("peek", 4, q.extremes());
        Ok(()) }
    fn from_json(s: &str) -> Result<Self, String> { serde_json::from_str(s).map_err(|e| e.to_string()) }
    fn to_json(&self) -> String { serde_json::to_string(self).unwrap() }
    fn de_in_place(&mut self, s: &str) -> Result<(), String> { let mut de = serde_json::Deserializer::from_str(s); serde::Deserialize::deserialize_in_place(&mut de, self).map_err(|e| e.to_string()) }
    fn adaptors(&mut self, k: usize) -> Result<(), String> {
        let all: Vec<(u16, i32)> = self.iter().map(|(i, p)| (i.id, p.0)).collect(); let n = all.len();
        let f = |x: Option<(&It, &Pr)>| x.map(|(i, p)| (i.id, p.0)); let g = |x: Option<(It, Pr)>| x.map(|(i, p)| (i.id, p.0));
        macro_rules! same { ($got:expr, $want:expr, $what:expr) => { let (a, b) = ($got, $want); if a != b { return Err(format!("{} with k = {} over {} elements: {:?}, expected {:?}", $what, k, n, a, b)); } } }
        same!(f(self.iter().nth(k)), all.get(k).copied(), "iter().nth(k)");
        same!(f(self.iter().nth_back(k)), if k < n { Some(all[n - 1 - k]) } else { None }, "iter().nth_back(k)");
        same!(f(self.iter().rev().skip(k).next()), if k < n { Some(all[n - 1 - k]) } else { None }, "iter().rev().skip(k).next()");
        same!(f(self.iter().last()), all.last().copied(), "iter().last()");
        same!(self.iter().count(), n, "iter().count()");
        same!(self.iter().skip(k).len(), n.saturating_sub(k), "iter().skip(k).len()");
        same!(self.iter().rev().take(k).len(), n.min(k), "iter().rev().take(k).len()");
        { let mut it = self.iter(); let a = f(it.next()); let b = f(it.next_back()); same!((a, b, it.len()), (all.first().copied(), if n >= 2 { all.last().copied() } else { None }, n.saturating_sub(2)), "iter(): next, next_back, len"); }
        same!(g(self.clone().into_iter().nth(k)), all.get(k).copied(), "into_iter().nth(k)");
        same!(g(self.clone().into_iter().nth_back(k)), if k < n { Some(all[n - 1 - k]) } else { None }, "into_iter().nth_back(k)");
        same!(g(self.clone().into_iter().rev().skip(k).next()), if k < n { Some(all[n - 1 - k]) } else { None }, "into_iter().rev().skip(k).next()");
        same!(self.clone().into_iter().skip(k).len(), n.saturating_sub(k), "into_iter().skip(k).len()");
        { let mut c = self.clone(); same!(g(c.drain().nth(k)), all.get(k).copied(), "drain().nth(k)"); same!($T::len(&c), 0, "len after drain().nth(k)"); }
        { let mut c = self.clone(); same!(g(c.drain().nth_back(k)), if k < n { Some(all[n - 1 - k]) } else { None }, "drain().nth_back(k)"); }
        { let mut c = self.clone(); same!(g(c.drain().rev().skip(k).next()), if k < n { Some(all[n - 1 - k]) } else { None }, "drain().rev().skip(k).next()"); }
        { let mut c = self.clone(); let mut d = c.drain(); let a = g(d.next()); let b = g(d.next_back()); let l = d.len(); let rest: Vec<(u16, i32)> = d.map(|(i, p)| (i.id, p.0)).collect();
          same!((a, b, l, rest.len()), (all.first().copied(), if n >= 2 { all.last().copied() } else { None }, n.saturating_sub(2), n.saturating_sub(2)), "drain(): next, next_back, len, rest");
          if n >= 2 { same!(rest, all[1..n - 1].to_vec(), "drain(): elements between the two ends"); } }
        Ok(()) }
    fn leak_iter_mut(&mut self, writes: usize) { let mut it = self.iter_mut(); for _ in 0..writes { if let Some((_, p)) = it.next() { *p -= 5; } } std::mem::forget(it); }
    fn faulty(&mut self, which: u64, k: usize, id: u16) {
        let mut n = 0usize;
        match which {
            0 => { self.change_priority_by(&It { id, tag: 0, own: Box::new(0) }, |p| { *p -= 1000; panic!("user closure") }); }
            1 => { $T::retain_mut(self, |_, p| { n += 1; *p -= 7; if n > k { panic!("user predicate") } n % 2 == 0 }); }
            2 => { $T::retain(self, |_, _| { n += 1; if n > k { panic!("user predicate") } n % 3 != 0 }); }
            3 => { let l = $T::len(self); self.extend((0..l + 40).map(|j| { if j > k { panic!("user iterator") } (It { id: (j * 7 % 60) as u16, tag: 1, own: Box::new(0) }, Pr((j % 11) as i32)) })); }
            4 => { for (_, p) in self.iter_mut() { n += 1; *p += 13 * (n as i32 % 5); if n > k { panic!("user loop body") } } }
            _ => { let mut d = self.drain(); for _ in 0..k { d.next(); } panic!("user code while draining") }
        }
    }
    fn capacity_ops(&mut self, n: usize) -> Result<(), String> {
        let l = $T::len(self);
        self.reserve(n); let c = self.capacity(); if c < l + n { return Err(format!("after reserve({}) capacity() = {} < len {} + {}", n, c, l, n)); }
        self.shrink_to_fit(); if self.capacity() < l { return Err(format!("after shrink_to_fit capacity() = {} < len {}", self.capacity(), l)); }
        if self.try_reserve(n).is_ok() && self.capacity() < l + n { return Err(format!("after try_reserve({}) = Ok capacity() = {} < len {} + {}", n, self.capacity(), l, n)); }
        self.reserve_exact(n / 2 + 1); if self.capacity() < l + n / 2 + 1 { return Err(format!("after reserve_exact({}) capacity() = {} < len {} + {}", n / 2 + 1, self.capacity(), l, n / 2 + 1)); }
        if self.try_reserve_exact(n).is_ok() && self.capacity() < l + n { return Err(format!("after try_reserve_exact({}) = Ok capacity() = {} < len {} + {}", n, self.capacity(), l, n)); }
        { let spare = self.capacity() - l; let want = spare + 3; self.reserve_exact(want); if self.capacity() < l + want { return Err(format!("after reserve_exact({}) with {} spare: capacity() = {} < len {} + {}", want, spare, self.capacity(), l, want)); }
          let spare = self.capacity() - l; let want = spare + 2; if self.try_reserve_exact(want).is_ok() && self.capacity() < l + want { return Err(format!("after try_reserve_exact({}) = Ok with {} spare: capacity() = {} < len {} + {}", want, spare, self.capacity(), l, want)); } }
        if self.try_reserve(usize::MAX / 2).is_ok() { return Err("try_reserve(usize::MAX/2) returned Ok".into()); }
        for d in [0usize, 1, n, l, l + 1] { let amount = usize::MAX - d;
            if self.try_reserve(amount).is_ok() && amount > 1 << 60 { return Err(format!("try_reserve(usize::MAX - {}) returned Ok", d)); }
            if self.try_reserve_exact(amount).is_ok() && amount > 1 << 60 { return Err(format!("try_reserve_exact(usize::MAX - {}) returned Ok", d)); } }
        if $T::len(self) != l { return Err("a failed try_reserve changed the length".into()); }
        Ok(()) }
} }

impl Q for PriorityQueue<It, Pr> {
    fn kind() -> &'static str { "PriorityQueue" }
    common!(PriorityQueue);
    fn extremes(&self) -> (Option<i32>, Option<i32>) { (None, self.peek().map(|(_, p)| p.0)) }
    fn pop_hi(&mut self) -> Option<(It, i32)> { self.pop().map(|(i, p)| (i, p.0)) }
    fn pop_lo(&mut self) -> Option<(It, i32)> { self.pop().map(|(i, p)| (i, p.0)) }
    fn pop_hi_if(&mut self, newp: i32, accept: bool) -> Option<(It, i32)> { self.pop_if(|_, p| { *p = Pr(newp); accept }).map(|(i, p)| (i, p.0)) }
    fn iter_mut_rewrite(&mut self, k: usize, d: i32, _b: bool) { for (_, p) in self.iter_mut().take(k) { *p += d; } }
    fn sorted_desc(self) -> Vec<It> { self.into_sorted_vec() }
    fn peek_mut_tags(&mut self, tag: u32) -> Vec<(Option<u16>, Option<u16>)> {
        let shown = self.peek().map(|(i, _)| i.id); let got = self.peek_mut().map(|(i, _)| { i.tag = tag; i.id }); vec![(got, shown)] }
    fn pop_hi_if_panic(&mut self) { self.pop_if(|_, p| { *p -= 900; panic!("user predicate") }); }
    fn iter_mut_walk(&mut self, bits: u64, calls: usize) -> Result<(), String> { let n = PriorityQueue::len(self); let mut it = self.iter_mut();
        let used = walk(n, bits, calls, |_back, skip| if skip > 0 { it.nth(skip) } else { it.next() }.map(|(_, p)| p as *mut Pr as usize))?;
        hint_ok(n.saturating_sub(used), catch_unwind(AssertUnwindSafe(|| it.size_hint())))?;
        // internal iteration (fold: count, for_each, sum ...) over what is left visits exactly that
        let rest = it.count(); if rest != n.saturating_sub(used) { return Err(format!("iter_mut: count() of the rest gives {} with {} elements left (an element handed out twice?)", rest, n.saturating_sub(used))); }
        Ok(()) }
    fn sorted_iter_lens(self, k: usize) -> Result<(), String> { let n = PriorityQueue::len(&self); let mut it = self.into_sorted_iter(); let mut left = n;
        for _ in 0..=k { let (lo, hi) = it.size_hint(); if lo > left || hi.map_or(false, |h| h < left) { return Err(format!("into_sorted_iter: size_hint {:?} with {} elements left", (lo, hi), left)); }
            if it.next().is_some() { left -= 1; } } Ok(()) }
    fn convert(self) -> Self { let d: DoublePriorityQueue<It, Pr> = self.into(); d.into() }
}
impl Q for DoublePriorityQueue<It, Pr> {
    fn kind() -> &'static str { "DoublePriorityQueue" }
    common!(DoublePriorityQueue);
    fn extremes(&self) -> (Option<i32>, Option<i32>) { (self.peek_min().map(|(_, p)| p.0), self.peek_max().map(|(_, p)| p.0)) }
    fn pop_hi(&mut self) -> Option<(It, i32)> { self.pop_max().map(|(i, p)| (i, p.0)) }
    fn pop_lo(&mut self) -> Option<(It, i32)> { self.pop_min().map(|(i, p)| (i, p.0)) }
    fn pop_hi_if(&mut self, newp: i32, accept: bool) -> Option<(It, i32)> { self.pop_max_if(|_, p| { *p = Pr(newp); accept }).map(|(i, p)| (i, p.0)) }
    fn iter_mut_rewrite(&mut self, k: usize, d: i32, from_back: bool) {
        let mut it = self.iter_mut();
        for _ in 0..k { let x = if from_back { it.next_back() } else { it.next() }; if let Some((_, p)) = x { *p += d; } } }
    fn sorted_desc(self) -> Vec<It> { self.into_descending_sorted_vec() }
    fn peek_mut_tags(&mut self, tag: u32) -> Vec<(Option<u16>, Option<u16>)> {
        let shown = self.peek_max().map(|(i, _)| i.id); let got = self.peek_max_mut().map(|(i, _)| { i.tag = tag; i.id });
        let shown2 = self.peek_min().map(|(i, _)| i.id); let got2 = self.peek_min_mut().map(|(i, _)| { i.tag = tag + 1; i.id });
        vec![(got, shown), (got2, shown2)] }
    fn pop_hi_if_panic(&mut self) { self.pop_max_if(|_, p| { *p -= 900; panic!("user predicate") }); }
    fn iter_mut_walk(&mut self, bits: u64, calls: usize) -> Result<(), String> { let n = DoublePriorityQueue::len(self); let mut it = self.iter_mut();
        let used = walk(n, bits, calls, |back, skip| if skip > 0 { if back { it.nth_back(skip) } else { it.nth(skip) } } else if back { it.next_back() } else { it.next() }.map(|(_, p)| p as *mut Pr as usize))?;
        hint_ok(n.saturating_sub(used), catch_unwind(AssertUnwindSafe(|| it.size_hint())))?;
        // internal iteration (fold: count, for_each, sum ...) over what is left visits exactly that
        let rest = it.count(); if rest != n.saturating_sub(used) { return Err(format!("iter_mut: count() of the rest gives {} with {} elements left (an element handed out twice?)", rest, n.saturating_sub(used))); }
        Ok(()) }
    fn sorted_iter_lens(self, k: usize) -> Result<(), String> { let n = DoublePriorityQueue::len(&self); let mut it = self.into_sorted_iter(); let mut left = n;
        for j in 0..=k { if it.len() != left || it.size_hint() != (left, Some(left)) { return Err(format!("into_sorted_iter: len {} size_hint {:?} with {} elements left", it.len(), it.size_hint(), left)); }
            let x = if j % 2 == 0 { it.next() } else { it.next_back() }; if x.is_some() { left -= 1; } }
        if k % 2 == 0 { let far = it.nth(left + k); if far.is_some() || it.len() != 0 || it.next().is_some() || it.next_back().is_some() {
            return Err(format!("into_sorted_iter: after nth({}) with {} elements left: len {} (nth past the end must exhaust the iterator)", left + k, left, it.len())); } }
        else if left > 0 { let s = it.nth(0); if s.is_none() || it.len() != left - 1 { return Err(format!("into_sorted_iter: nth(0) with {} elements left gives {:?} elements afterwards", left, it.len())); } }
        Ok(()) }
    fn convert(self) -> Self { let d: PriorityQueue<It, Pr> = self.into(); d.into() }
}

static FAULTS: std::sync::atomic::AtomicBool = std::sync::atomic::AtomicBool::new(false);
static WIDE: std::sync::atomic::AtomicBool = std::sync::atomic::AtomicBool::new(false);

/// iter_mut consumed following `bits` (front / back): every element at most once, nothing after the first None, all of them if it ended
/// size_hint of a (possibly exhausted) iter_mut: no panic, and bounds that enclose what is left
fn hint_ok(left: usize, h: std::thread::Result<(usize, Option<usize>)>) -> Result<(), String> {
    match h { Err(_) => Err(format!("iter_mut().size_hint() panics with {} elements left", left)),
              Ok((lo, hi)) => if lo <= left && hi.map_or(true, |x| x >= left) { Ok(()) } else { Err(format!("iter_mut().size_hint() = {:?} with {} elements left", (lo, hi), left)) } }
}

fn walk<F: FnMut(bool, usize) -> Option<usize>>(n: usize, bits: u64, calls: usize, mut step: F) -> Result<usize, String> {
    let mut seen = std::collections::BTreeSet::new(); let mut ended = false; let mut got = 0usize; let mut skipped = 0usize;
    for c in 0..calls {
        let back = (bits >> (c % 60)) & 1 == 1;
        // now and then skip elements with nth / nth_back (what is skipped is dropped unseen, but counts)
        let skip = if (bits >> ((c + 7) % 60)) & 7 == 7 { 1 + ((bits >> ((c + 11) % 60)) & 3) as usize } else { 0 };
        match step(back, skip) {
            Some(a) => { if ended { return Err(format!("iter_mut yields an element after it had returned None (call {}, {} elements)", c + 1, n)); }
                         if !seen.insert(a) { return Err(format!("iter_mut hands out the same element twice (call {}, {} elements): two live &mut alias", c + 1, n)); }
                         got += 1; skipped += skip; }
            None => { if !ended && got + skipped + skip < n { return Err(format!("iter_mut ended after {} yielded + {} skipped of {} elements (last call skipped {})", got, skipped, n, skip)); } ended = true; } }
    }
    if got + skipped > n { return Err(format!("iter_mut produced {} yielded + {} skipped of {} elements", got, skipped, n)); }
    Ok(if ended { n } else { got + skipped })
}

fn observe<T: Q>(q: &T, m: &Model) -> Result<(), Fail> {
    ck!(q.len() == m.len(), "C03,C04,C13", "len {} but model holds {}", q.len(), m.len());
    let mut seen = BTreeMap::new();
    for (id, tag, p) in q.iter_pairs() { ck!(seen.insert(id, (tag, p)).is_none(), "C03,C13", "iter yields item {} twice", id); }
    ck!(seen.len() == m.len(), "C03,C13", "iter yields {} elements, model holds {}", seen.len(), m.len());
    for (id, (tag, p)) in m {
        ck!(q.get(*id) == Some((*tag, *p)), "C03,C12", "get({}) = {:?}, model ({}, {})", id, q.get(*id), tag, p);
        ck!(seen.get(id) == Some(&(*tag, *p)), "C03,C12", "iter reports {:?} for item {}, model ({}, {})", seen.get(id), id, tag, p);
    }
    let (l, h) = q.iter_len_hint();
    ck!(l == m.len() && h == (m.len(), Some(m.len())), "C13", "iter len {} size_hint {:?}, expected {}", l, h, m.len());
    let (lo, hi) = q.extremes();
    let mx = m.values().map(|x| x.1).max();
    ck!(hi == mx, if T::kind() == "PriorityQueue" { "C01" } else { "C02" }, "peek(max) reports {:?}, maximum stored is {:?}", hi, mx);
    if T::kind() != "PriorityQueue" { let mn = m.values().map(|x| x.1).min(); ck!(lo == mn, "C02", "peek_min reports {:?}, minimum stored is {:?}", lo, mn); }
    Ok(())
}

fn step<T: Q>(q: &mut T, m: &mut Model, r: &mut Rng, log: &mut Vec<String>) -> Result<(), Fail> {
    let ids = 28u64;
    let id = r.below(ids) as u16;
    // half of the histories draw priorities from a small range (many ties), the other half from a wide one (few ties)
    let p = if WIDE.load(std::sync::atomic::Ordering::Relaxed) { r.below(100_000) as i32 - 50_000 } else if r.below(4) == 0 { r.below(1000) as i32 - 500 } else { r.below(7) as i32 };
    let tag = r.below(1_000_000) as u32;
    let faults = FAULTS.load(std::sync::atomic::Ordering::Relaxed);
    let op = { let o = r.below(if faults { 34 } else { 24 }); if !faults && o == 23 { 24 } else { o } };
    // an observable that is wrong right after an operation is also a failure of what that operation promises
    let oplabel = match op { 9 | 10 => "C11", 15 | 16 => "C08", 17 => "C08,C09", 18 | 19 => "C07", 20 => "C16", 21 => "C12", 22 => "C14,C15,C06,C07", 24 => "C17", _ => "" };
    match op {
        0..=6 => { log.push(format!("push({},{})", id, p)); let old = q.push(It { id, tag, own: Box::new(0) }, p);
            ck!(old == m.get(&id).map(|x| x.1), "C03", "push returned {:?}, stored priority was {:?}", old, m.get(&id).map(|x| x.1));
            let t = m.get(&id).map(|x| x.0).unwrap_or(tag); m.insert(id, (t, p)); }
        7 => { log.push(format!("change_priority({},{})", id, p)); let old = q.change(id, p);
            ck!(old == m.get(&id).map(|x| x.1), "C03", "change_priority returned {:?}", old); if let Some(e) = m.get_mut(&id) { e.1 = p; } }
        8 => { log.push(format!("change_priority_by({},+{})", id, p)); let was = q.change_by(id, p);
            ck!(was == m.contains_key(&id), "C03", "change_priority_by returned {}", was); if let Some(e) = m.get_mut(&id) { e.1 += p; } }
        9 => { log.push(format!("push_increase({},{})", id, p)); let rr = q.push_inc(It { id, tag, own: Box::new(0) }, p);
            match m.get(&id).copied() { None => { ck!(rr.is_none(), "C11", "push_increase of an absent item returned {:?}", rr); m.insert(id, (tag, p)); }
                Some((t, op)) => if p > op { ck!(rr == Some(op), "C11", "push_increase returned {:?}, old priority {}", rr, op); m.insert(id, (t, p)); }
                                 else { ck!(rr == Some(p), "C11", "push_increase (not greater) returned {:?}, offered {}", rr, p); } } }
        10 => { log.push(format!("push_decrease({},{})", id, p)); let rr = q.push_dec(It { id, tag, own: Box::new(0) }, p);
            match m.get(&id).copied() { None => { ck!(rr.is_none(), "C11", "push_decrease of an absent item returned {:?}", rr); m.insert(id, (tag, p)); }
                Some((t, op)) => if p < op { ck!(rr == Some(op), "C11", "push_decrease returned {:?}, old priority {}", rr, op); m.insert(id, (t, p)); }
                                 else { ck!(rr == Some(p), "C11", "push_decrease (not smaller) returned {:?}, offered {}", rr, p); } } }
        11 => { log.push(format!("remove({})", id)); let rr = q.remove(id);
            ck!(rr.as_ref().map(|(i, p)| (i.tag, *p)) == m.get(&id).copied(), "C03,C12", "remove returned {:?}, model {:?}", rr, m.get(&id)); m.remove(&id); }
        12 | 13 => { log.push("pop_max/pop".into()); let mx = m.values().map(|x| x.1).max(); let rr = q.pop_hi();
            ck!(rr.as_ref().map(|x| x.1) == mx, if T::kind() == "PriorityQueue" { "C01" } else { "C02" }, "pop(max) returned {:?}, maximum stored {:?}", rr, mx);
            if let Some((i, p)) = rr { ck!(m.get(&i.id) == Some(&(i.tag, p)), "C03,C12", "popped pair {:?} is not the stored one {:?}", (i.id, i.tag, p), m.get(&i.id)); m.remove(&i.id); } }
        14 => { if T::kind() != "PriorityQueue" { log.push("pop_min".into()); let mn = m.values().map(|x| x.1).min(); let rr = q.pop_lo();
            ck!(rr.as_ref().map(|x| x.1) == mn, "C02", "pop_min returned {:?}, minimum stored {:?}", rr, mn);
            if let Some((i, p)) = rr { ck!(m.get(&i.id) == Some(&(i.tag, p)), "C03,C12", "popped pair is not the stored one"); m.remove(&i.id); } } }
        15 => { let accept = r.below(2) == 0; log.push(format!("pop_if(set {}, {})", p, accept));
            let mx = m.values().map(|x| x.1).max(); let before = m.clone(); let rr = q.pop_hi_if(p, accept);
            if before.is_empty() { ck!(rr.is_none(), "C08", "pop_if on empty returned something"); }
            else if accept { let (i, np) = match rr { Some(x) => x, None => return Err(Fail { props: "C08".into(), what: "pop_if(true) returned None".into() }) };
                ck!(np == p && before.get(&i.id).map(|x| x.1) == mx, "C08,C03", "pop_if removed item {} (old priority {:?}), maximum was {:?}", i.id, before.get(&i.id), mx); m.remove(&i.id); }
            else { ck!(rr.is_none(), "C08", "pop_if(false) removed {:?}", rr);
                // exactly one element, one that held the maximum, now has priority p
                let cand: Vec<u16> = before.iter().filter(|(_, v)| Some(v.1) == mx).map(|(k, _)| *k).collect();
                let hit: Vec<u16> = cand.iter().copied().filter(|k| q.get(*k).map(|x| x.1) == Some(p)).collect();
                ck!(!hit.is_empty(), "C08", "pop_if(false): no former maximum carries the written priority {}", p);
                let k = hit[0]; m.get_mut(&k).unwrap().1 = p; } }
        16 if r.below(3) == 0 => { let mt = r.below(2) == 0; log.push(format!("retain{}(keep everything)", if mt { "_mut" } else { "" })); q.retain_all(mt); }
        16 => { let md = 2 + r.below(4) as u16; let d = r.below(5) as i32 - 2; log.push(format!("retain_mut(id%{}!=0, {:+})", md, d)); q.retain_mut(md, d);
            m.retain(|k, v| { v.1 += d * (*k as i32 % 3 - 1); k % md != 0 }); }
        17 => { let k = r.below(40) as usize; let d = r.below(9) as i32 - 4; let b = r.below(2) == 0; log.push(format!("iter_mut rewrite first {} ({}) by {:+}", k, if b { "back" } else { "front" }, d));
            { let bits = r.next() << 20 ^ r.next(); let calls = q.len() + r.below(4) as usize; if let Err(e) = q.iter_mut_walk(bits, calls) { return Err(Fail { props: "C09".into(), what: e }); } }
            let order: Vec<u16> = q.iter_pairs().iter().map(|x| x.0).collect(); q.iter_mut_rewrite(k, d, b);
            let n = order.len(); let kk = k.min(n);
            let touched: Vec<u16> = if b && T::kind() != "PriorityQueue" { order[n - kk..].to_vec() } else { order[..kk].to_vec() };
            for t in touched { m.get_mut(&t).unwrap().1 += d; } }
        18 => { let n = r.below(70) as usize; let v: Vec<(It, i32)> = (0..n).map(|_| (It { id: r.below(ids + 20) as u16, tag: r.below(1000) as u32, own: Box::new(0) }, r.below(9) as i32)).collect();
            let (lo, hi) = match r.below(4) { 0 => (n, Some(n)), 1 => (0, None), 2 => (0, Some(usize::MAX)), _ => (n / 2, Some(n * 40 + 1000)) };
            log.push(format!("extend({} pairs, hint ({}, {:?}))", n, lo, hi));
            for (i, p) in &v { let t = m.get(&i.id).map(|x| x.0).unwrap_or(i.tag); m.insert(i.id, (t, *p)); }
            q.extend_h(v, lo, hi); }
        19 if r.below(3) == 0 && !m.is_empty() && m.len() <= 40 => {
            // equal lengths with clashes, the other queue having more room: the receiver's pairs stay
            let keys: Vec<u16> = m.keys().copied().collect(); let mut v: Vec<(It, i32)> = vec![]; let mut fresh = 100u16;
            for k in &keys { if r.below(2) == 0 { v.push((It { id: *k, tag: 7, own: Box::new(0) }, r.below(9) as i32 + 20)); } else { v.push((It { id: fresh, tag: 7, own: Box::new(0) }, r.below(9) as i32)); fresh += 1; } }
            let room = r.below(200) as usize; log.push(format!("append(queue of equal length {} with {} spare capacity)", v.len(), room));
            let left = q.append_roomy(v.clone(), room); ck!(left == (0, 0, 0), "C07,C16,C13", "append leaves the other queue with (len, iter().count(), iter().len()) = {:?}", left);
            for (i, p) in v { if !m.contains_key(&i.id) { m.insert(i.id, (i.tag, p)); } } }
        19 => { let n = r.below(40) as usize; let mut v: Vec<(It, i32)> = vec![]; for _ in 0..n { let i = r.below(ids + 20) as u16; if !v.iter().any(|x| x.0.id == i) { v.push((It { id: i, tag: 7, own: Box::new(0) }, r.below(9) as i32)); } }
            log.push(format!("append(queue of {})", v.len())); let longer = v.len() > m.len();
            let left = q.append_from(v.clone()); ck!(left == (0, 0, 0), "C07,C16,C13", "append leaves the other queue with (len, iter().count(), iter().len()) = {:?}", left);
            for (i, p) in v { if !m.contains_key(&i.id) { m.insert(i.id, (i.tag, p)); } else if longer { let cur = q.get(i.id); if let Some(c) = cur { m.insert(i.id, c); } } } }
        20 => { if r.below(3) == 0 { log.push("clear".into()); q.clear(); m.clear(); } else { let k = r.below(5) as usize; let f = r.below(3) == 0; log.push(format!("drain take {} forget {}", k, f));
            let got = q.drain_k(k, f); for (i, p) in &got { ck!(m.get(&i.id) == Some(&(i.tag, *p)), "C16,C13", "drain yielded a pair that was not stored"); } if !f { ck!(got.len() == m.len(), "C16", "drain yielded {} of {}", got.len(), m.len()); } m.clear(); } }
        21 if r.below(2) == 0 => { log.push(format!("peek_mut / peek_max_mut / peek_min_mut: tag = {}", tag));
            let kind = if T::kind() == "PriorityQueue" { "C01" } else { "C02" };
            for (k, (got, shown)) in q.peek_mut_tags(tag).into_iter().enumerate() {
                ck!(got == shown, &format!("{},C12", kind), "peek_*_mut no. {} addresses item {:?}, the corresponding peek reports item {:?}", k, got, shown);
                if let Some(g) = got { m.get_mut(&g).unwrap().0 = tag + k as u32; } else { ck!(m.is_empty(), kind, "peek_*_mut returns None on a non-empty queue"); } } }
        21 => { log.push(format!("get_mut({}).tag = {}", id, tag)); if q.set_tag(id, tag) { m.get_mut(&id).unwrap().0 = tag; } else { ck!(!m.contains_key(&id), "C03", "get_mut misses a stored item"); } }
        22 => { log.push("clone / eq / sorted / serde / convert".into());
            let c = q.clone(); ck!(c.same(q), "C14", "clone is not equal to its source");
            { // twins: two clones of one queue, one of them with reserved room, given the same calls, take the same decisions
              // (also among equal priorities): neither capacity nor being a clone is observable
                let top = m.values().map(|x| x.1).max().unwrap_or(0);
                let k = 1 + r.below(6) as usize; let hinted = r.below(2) == 0;
                let fresh = |k: usize| -> Vec<(It, i32)> { (0..k).map(|j| (It { id: 60000 + j as u16, tag: 0, own: Box::new(0) }, top + 1 - (j as i32 % 2))).collect() };
                let mut a = q.clone(); let mut b = q.clone(); b.reserve_n(64);
                if hinted { a.extend_h(fresh(k), k, Some(k)); b.extend_h(fresh(k), k, Some(k)); } else { for (i, p) in fresh(k) { a.push(i, p); } for (i, p) in fresh(k) { b.push(i, p); } }
                let (ea, eb) = (a.extremes(), b.extremes());
                let sa: Vec<u16> = a.sorted_desc().into_iter().map(|i| i.id).collect(); let sb: Vec<u16> = b.sorted_desc().into_iter().map(|i| i.id).collect();
                ck!(sa == sb && ea == eb, "C14,C17", "two clones of one queue, the second with reserved room, both {} {} pairs (priorities {} and {}): emptied in the orders {:?} and {:?}",
                    if hinted { "extended by" } else { "pushed" }, k, top + 1, top, sa, sb); }
            if !m.is_empty() { // twins again: the same append into a roomy clone from a tight queue, and into a tight clone from a roomy queue
                let keys: Vec<u16> = m.keys().copied().collect(); let mk = |keys: &Vec<u16>| -> Vec<(It, i32)> { keys.iter().enumerate().map(|(j, k)| (It { id: if j % 2 == 0 { *k } else { 62000 + j as u16 }, tag: 7, own: Box::new(0) }, 1000 + j as i32)).collect() };
                let mut a = q.clone(); a.reserve_n(400); let mut b = q.clone();
                a.append_roomy(mk(&keys), 0); b.append_roomy(mk(&keys), 200);
                let mut pa = a.iter_pairs(); pa.sort(); let mut pb = b.iter_pairs(); pb.sort();
                ck!(pa == pb, "C17,C14", "two clones of one queue that differ in capacity only, after append of the same {} pairs (other queue with 0 / 200 reserved room), hold {:?} and {:?}", keys.len(), pa, pb); }
            { let mut d = T::new(); for j in 0..r.below(12) as u16 { d.push(It { id: 200 + j, tag: 0, own: Box::new(0) }, j as i32); }
              d.clone_from_q(q); ck!(d.same(q) && q.same(&d), "C14", "a queue refreshed with clone_from is not equal to its source");
              observe(&d, m).and_then(|_| drain_check(d, m, true)).map_err(|f| Fail { props: "C14".into(), what: format!("after clone_from: {}", f.what) })?; }
            { // same contents in other arrangements / one pair different
                let mut v: Vec<(It, i32)> = m.iter().map(|(k, v)| (It { id: *k, tag: v.0, own: Box::new(0) }, v.1)).collect();
                let a = T::from_vec(v.clone()); ck!(a.same(q) && q.same(&a), "C14", "a queue built from the same pairs (ascending item order) compares unequal");
                v.reverse(); let mut b = T::new(); for (i, p) in v.iter().cloned() { b.push(i, p); }
                ck!(b.same(q) && q.same(&b), "C14", "a queue built by pushing the same pairs in descending item order compares unequal");
                if !v.is_empty() { let k = r.below(v.len() as u64) as usize;
                    let mut d = b.clone(); d.change(v[k].0.id, v[k].1 + 1); ck!(!d.same(q) && !q.same(&d), "C14", "queues differing in the priority of item {} compare equal", v[k].0.id);
                    let mut e = b.clone(); e.remove(v[k].0.id); ck!(!e.same(q) && !q.same(&e), "C14", "queues differing by one item compare equal");
                    e.push(It { id: 9000, tag: 0, own: Box::new(0) }, v[k].1); ck!(!e.same(q) && !q.same(&e), "C14", "queues of equal size differing in one item compare equal");
                    let mut c2 = q.clone(); c2.change(v[k].0.id, v[k].1 - 3); ck!(q.get(v[k].0.id).map(|x| x.1) == Some(v[k].1), "C14", "mutating a clone changed the source"); } }
            let s = c.clone().sorted_desc(); ck!(s.len() == m.len(), "C06", "sorted vec has {} of {} elements", s.len(), m.len());
            let ps: Vec<i32> = s.iter().map(|i| m.get(&i.id).map(|x| x.1).unwrap_or(i32::MIN)).collect();
            ck!(ps.windows(2).all(|w| w[0] >= w[1]), "C06", "sorted vec is not in non-increasing order: {:?}", ps);
            if let Err(e) = q.adaptors(r.below(7) as usize) { return Err(Fail { props: "C13,C16".into(), what: e }); }
            if let Err(e) = c.clone().sorted_iter_lens(r.below(6) as usize) { return Err(Fail { props: "C13,C06".into(), what: e }); }
            match q.roundtrip() { Ok(b) => { ck!(b.same(q), "C15", "serde round trip is not equal"); observe(&b, m).map_err(|f| Fail { props: "C15".into(), what: format!("after serde round trip: {}", f.what) })?;
                    // the deserialized queue is a working queue: demote its maximum, the next one must surface
                    if m.len() >= 2 { let mut b2 = b.clone(); let mut m2 = m.clone(); let (&top, _) = m2.iter().max_by_key(|(_, v)| v.1).unwrap(); let low = m2.values().map(|x| x.1).min().unwrap() - 1;
                        b2.change(top, low); m2.get_mut(&top).unwrap().1 = low;
                        observe(&b2, &m2).and_then(|_| drain_check(b2, &m2, false)).map_err(|f| Fail { props: "C15".into(), what: format!("after serde round trip and change_priority of the maximum: {}", f.what) })?; } } Err(e) => return Err(Fail { props: "C15".into(), what: e }) }
            { // a serialized sequence that repeats items (adjacent and not): no panic, a consistent queue over the distinct items
                let n = r.below(14) as usize; let mut v: Vec<(It, i32)> = vec![];
                for _ in 0..n { let i = if !v.is_empty() && r.below(3) == 0 { v[v.len() - 1].0.id } else { r.below(9) as u16 }; v.push((It { id: i, tag: 5, own: Box::new(0) }, r.below(9) as i32)); }
                let js = serde_json::to_string(&v).unwrap();
                match catch_unwind(AssertUnwindSafe(|| T::from_json(&js))) {
                    Err(_) => return Err(Fail { props: "C15,C04".into(), what: format!("deserializing {} panicked", js) }),
                    Ok(Err(_)) => {}   // rejecting repeated items would be acceptable
                    Ok(Ok(d)) => { let mut dm = Model::new(); for (i, p) in &v { let t = dm.get(&i.id).map(|x: &(u32, i32)| x.0).unwrap_or(i.tag); dm.insert(i.id, (t, *p)); }
                        let ids: std::collections::BTreeSet<u16> = d.iter_pairs().iter().map(|x| x.0).collect();
                        ck!(ids.len() == d.len() && ids == dm.keys().copied().collect(), "C15", "deserializing {} gives {} elements over items {:?}", js, d.len(), ids);
                        let (lo, hi) = d.extremes(); let ps: Vec<i32> = d.iter_pairs().iter().map(|x| x.2).collect();
                        ck!(hi == ps.iter().copied().max() && (T::kind() == "PriorityQueue" || lo == ps.iter().copied().min()), "C15", "deserializing {} gives a queue whose peeks {:?} are not its extremes", js, (lo, hi));
                        let mut d = d; let mut prev = i32::MAX; let mut cnt = 0; while let Some((_, p)) = d.pop_hi() { ck!(p <= prev, "C15", "deserializing {} gives a queue that pops out of order", js); prev = p; cnt += 1; }
                        ck!(cnt == ids.len(), "C15", "deserializing {} gives a queue that pops {} of {} elements", js, cnt, ids.len()); } } }
            { // deserialize_in_place, also from an input that breaks off after some good pairs: whatever it leaves is a working queue
                let good = q.to_json(); let cut = good.len() * (1 + r.below(3) as usize) / 4;
                let mut bad = good[..good[..cut.max(1)].rfind(']').map(|i| i + 1).unwrap_or(1)].to_string(); bad.push_str(",[\"oops\"]]");
                for (txt, what) in [(&good, "its own serialization"), (&bad, "an input that breaks off")] {
                    let mut d = T::new(); for j in 0..r.below(9) as u16 { d.push(It { id: 300 + j, tag: 0, own: Box::new(0) }, (j % 5) as i32); }
                    let res = match catch_unwind(AssertUnwindSafe(|| d.de_in_place(txt))) { Ok(x) => x, Err(_) => return Err(Fail { props: "C15,C04".into(), what: format!("deserialize_in_place from {} panicked", what) }) };
                    if what.starts_with("its") { ck!(res.is_ok() && d.same(q), "C15", "deserialize_in_place from its own serialization: {:?}", res.err()); }
                    let dm: Model = d.iter_pairs().iter().map(|x| (x.0, (x.1, x.2))).collect();
                    let lab = if T::kind() == "PriorityQueue" { "C15,C01" } else { "C15,C02" };
                    observe(&d, &dm).and_then(|_| drain_check(d, &dm, true)).map_err(|f| Fail { props: lab.into(), what: format!("after deserialize_in_place from {}: {}", what, f.what) })?; } }
            { // From<Vec> / FromIterator with repeated items: first resp. last priority per distinct item, a correctly ordered queue
                let n = r.below(30) as usize; let mut v: Vec<(It, i32)> = vec![];
                for _ in 0..n { let i = if !v.is_empty() && r.below(3) == 0 { v[r.below(v.len() as u64) as usize].0.id } else { r.below(40) as u16 }; v.push((It { id: i, tag: v.len() as u32, own: Box::new(0) }, r.below(9) as i32)); }
                let mut first = Model::new(); let mut last = Model::new();
                for (i, p) in &v { first.entry(i.id).or_insert((i.tag, *p)); let t = last.get(&i.id).map(|x: &(u32, i32)| x.0).unwrap_or(i.tag); last.insert(i.id, (t, *p)); }
                for (which, want) in [(0, &first), (1, &last)] {
                    let what = if which == 0 { "From<Vec>" } else { "FromIterator" };
                    match catch_unwind(AssertUnwindSafe(|| if which == 0 { T::from_vec(v.clone()) } else { T::from_it(v.clone(), 0, None) })) {
                        Err(_) => return Err(Fail { props: "C07,C04".into(), what: format!("{} of {} pairs with repeated items panicked", what, v.len()) }),
                        Ok(d) => { let got: BTreeMap<u16, i32> = d.iter_pairs().iter().map(|x| (x.0, x.2)).collect(); let exp: BTreeMap<u16, i32> = want.iter().map(|(k, x)| (*k, x.1)).collect();
                            ck!(got == exp && d.len() == exp.len(), "C07", "{} with repeated items: contents {:?}, expected {:?}", what, got, exp);
                            let wm: Model = want.iter().map(|(k, x)| (*k, (0, x.1))).collect();
                            match catch_unwind(AssertUnwindSafe(|| drain_check(d, &wm, true))) { Ok(Ok(())) => {}, Ok(Err(f)) => return Err(Fail { props: "C07".into(), what: format!("{} with repeated items: {}", what, f.what) }),
                                Err(_) => return Err(Fail { props: "C07,C04".into(), what: format!("a queue built by {} from repeated items panics when drained", what) }) } } } } }
            let conv = c.convert(); ck!(conv.same(q), "C07", "conversion changed the contents"); *q = conv; }
        23 => { log.push("FAULT: mem::forget(iter_mut()) without writing through it".into()); q.leak_iter_mut(0); return Err(Fail { props: "FAULT".into(), what: String::new() }); }
        25 => { { let w = 1 + r.below(6) as usize; log.push(format!("FAULT: mem::forget(iter_mut()) after lowering the first {} priorities", w)); q.leak_iter_mut(w); return Err(Fail { props: "FAULT".into(), what: String::new() }); } }
        28..=31 => { let k = 1 + r.below(14) as u32; log.push(format!("FAULT: the next operation runs with the {}. call of the user's Ord::cmp / Hash::hash / Eq::eq panicking (caught)", k));
                FAULTS.store(false, std::sync::atomic::Ordering::Relaxed); TRIP.with(|t| t.set(k));
                let _ = catch_unwind(AssertUnwindSafe(|| step(q, m, r, log)));
                TRIP.with(|t| t.set(0)); FAULTS.store(true, std::sync::atomic::Ordering::Relaxed);
                return Err(Fail { props: "FAULT".into(), what: String::new() }); }
        32 | 33 => { let k = 1 + r.below(40) as u32; let n = r.below(45) as usize;
                log.push(format!("FAULT: clone_from(a queue of {} elements) with the {}. call of the user's Clone / Hash / Eq / Ord panicking (caught)", n, k));
                let mut o = T::new(); for j in 0..n { o.push(It { id: (j * 3 % 70) as u16, tag: 1, own: Box::new(0) }, (j % 9) as i32); }
                TRIP.with(|t| t.set(k)); let _ = catch_unwind(AssertUnwindSafe(|| q.clone_from_q(&o))); TRIP.with(|t| t.set(0));
                return Err(Fail { props: "FAULT".into(), what: String::new() }); }
        26 | 27 => { let which = r.below(7); let k = r.below(12) as usize; log.push(format!("FAULT: operation #{} whose callback panics at call {} (caught)", which, k + 1));
                let which2 = if T::kind() == "PriorityQueue" || which < 6 { which } else { 5 };
                let _ = catch_unwind(AssertUnwindSafe(|| if which2 == 6 { q.pop_hi_if_panic() } else { q.faulty(which2, k, id) })); return Err(Fail { props: "FAULT".into(), what: String::new() }); }
        _ => { let n = r.below(50) as usize; log.push(format!("capacity ops {}", n));
            match catch_unwind(AssertUnwindSafe(|| q.capacity_ops(n))) { Ok(Ok(())) => {}, Ok(Err(e)) => return Err(Fail { props: "C17".into(), what: e }), Err(_) => return Err(Fail { props: "C17,C04".into(), what: "capacity operation panicked".into() }) }
            if r.below(2) == 0 { let v: Vec<(It, i32)> = m.iter().map(|(k, v)| (It { id: *k, tag: v.0, own: Box::new(0) }, v.1)).collect(); log.push("rebuild through From<Vec>/FromIterator".into());
                *q = if r.below(2) == 0 { T::from_vec(v) } else { T::from_it(v, 0, Some(usize::MAX)) }; } }
    }
    let deep = r.below(3) == 0;
    observe(q, m).and_then(|_| if deep { drain_check(q.clone(), m, r.below(2) == 0) } else { Ok(()) })
        .map_err(|f| Fail { props: if oplabel.is_empty() { f.props } else { format!("{},{}", f.props, oplabel) }, what: f.what })
}

/// latent disorder made visible at once: a clone is emptied by pops, each of which must return an extreme of what is left
fn drain_check<T: Q>(mut c: T, m: &Model, alternate: bool) -> Result<(), Fail> {
    let lab = if T::kind() == "PriorityQueue" { "C01" } else { "C02" };
    let mut left: Vec<i32> = m.values().map(|x| x.1).collect(); left.sort();
    let mut k = 0usize;
    while !left.is_empty() {
        let low = alternate && T::kind() != "PriorityQueue" && k % 2 == 1; k += 1;
        let want = if low { left.remove(0) } else { left.pop().unwrap() };
        let got = if low { c.pop_lo() } else { c.pop_hi() };
        ck!(got.as_ref().map(|x| x.1) == Some(want), lab, "draining a clone: pop no. {} ({}) returned {:?}, the {} of what is left is {}", k, if low { "min" } else { "max" }, got.map(|x| (x.0.id, x.1)), if low { "minimum" } else { "maximum" }, want);
    }
    ck!(c.pop_hi().is_none() && c.len() == 0, lab, "draining a clone: elements are left after {} pops", k);
    Ok(())
}

fn run_seq<T: Q>(seed: u64, index: u64, len: usize, want: &str, trace: bool) -> Option<(String, Vec<String>)> {
    let mut r = Rng(seed.wrapping_mul(0x9e3779b97f4a7c15) ^ index.wrapping_mul(0xd1b54a32d192ed03) ^ 0x5bf0_3635);
    WIDE.store(index % 4 >= 2, std::sync::atomic::Ordering::Relaxed);
    let mut q = T::new(); let mut m = Model::new(); let mut log = vec![format!("{}::new()", T::kind())];
    if trace { println!("  {:3}: {}", 0, log[0]); }
    if want == "C05" && index < 2 {
        let n = 4096; log.push(format!("comparison counts on a {} of {} elements", T::kind(), n));
        if let Err(e) = T::cost_probe(n) { return Some((format!("[C05] {}", e), log)); }
    }
    // after a caught panic in user code or a leaked iter_mut (a FAULT step) only memory safety is promised (C10):
    // the oracle is switched off and the history continues; the only failure left is the process aborting
    // (debug builds of std abort on the unsafe preconditions of get_unchecked & co.), which the supervisor reports
    let mut lenient = false;
    for _ in 0..len {
        let n0 = log.len();
        let res = catch_unwind(AssertUnwindSafe(|| step(&mut q, &mut m, &mut r, &mut log)));
        if trace { for (k, s) in log.iter().enumerate().skip(n0) { println!("  {:3}: {}", k, s); } use std::io::Write; std::io::stdout().flush().ok(); }
        let f = match res { Ok(Ok(())) => continue, Ok(Err(f)) => f, Err(e) => Fail { props: if log.last().map_or(false, |s| s.starts_with("extend(") || s.starts_with("rebuild through")) { "C04,C07".into() } else { "C04".into() }, what: format!("panic: {}", e.downcast_ref::<String>().cloned().or(e.downcast_ref::<&str>().map(|s| s.to_string())).unwrap_or_default()) } };
        if f.props == "FAULT" { lenient = true; }
        if lenient { continue; }
        if want == "any" || f.props.split(',').any(|p| p == want) { return Some((format!("[{}] {}", f.props, f.what), log)); }
        return None; // a failure of another property: this history is spoiled, try the next one
    }
    None
}

fn one(seed: u64, index: u64, l: usize, want: &str, trace: bool) -> Option<(String, Vec<String>)> {
    if index % 2 == 0 { run_seq::<PriorityQueue<It, Pr>>(seed, index, l, want, trace) } else { run_seq::<DoublePriorityQueue<It, Pr>>(seed, index, l, want, trace) }
}

fn main() {
    let a: Vec<String> = std::env::args().collect();
    let (mode, want, seed) = (a[1].as_str(), a[2].as_str(), a[3].parse::<u64>().unwrap());
    FAULTS.store(want == "C10" || want == "C04", std::sync::atomic::Ordering::Relaxed);
    let (from, to, len) = if mode == "range" { (a[6].parse::<u64>().unwrap(), a[4].parse::<u64>().unwrap(), a[5].parse::<usize>().unwrap()) } else if mode == "replay" { let i = a[4].parse::<u64>().unwrap(); (i, i + 1, a[5].parse::<usize>().unwrap()) } else { (0, a[4].parse::<u64>().unwrap(), a[5].parse::<usize>().unwrap()) };
    let seqlen = |index: u64| if mode == "replay" { len } else { 4 + (index as usize * 7) % len };
    if std::env::var("PQ_CEX_CHILD").is_err() {
        // supervisor: the work is done by child processes so that an abort of the crate can be reported with its history.
        // Only an abort raised by a violated unsafe precondition (debug std checks get_unchecked, ptr reads, ...) or a
        // fatal signal counts; an abort caused by a second *safe* panic during unwinding is not an undefined access.
        let exe = std::env::current_exe().unwrap();
        let prog = std::env::temp_dir().join(format!("pq-cex-progress-{}", std::process::id()));
        let mut start = from; let mut benign = 0u64;
        loop {
            let args: Vec<String> = if mode == "replay" { a[1..].to_vec() } else { vec!["range".into(), want.into(), seed.to_string(), to.to_string(), len.to_string(), start.to_string()] };
            let st = std::process::Command::new(&exe).args(&args).env("PQ_CEX_CHILD", "1").env("PQ_CEX_PROGRESS", &prog).stderr(std::process::Stdio::null()).status().unwrap();
            let code = st.code();
            if code == Some(0) || code == Some(1) { std::fs::remove_file(&prog).ok();
                if code == Some(0) && benign > 0 { println!("({} histories ended in an abort caused by a safe panic during unwinding: not counted)", benign); }
                std::process::exit(code.unwrap()); }
            let index: u64 = std::fs::read_to_string(&prog).ok().and_then(|s| s.trim().parse().ok()).unwrap_or(start);
            std::fs::remove_file(&prog).ok();
            let l = seqlen(index);
            let out = std::process::Command::new(&exe).args(["replay", want, &seed.to_string(), &index.to_string(), &l.to_string()]).env("PQ_CEX_CHILD", "1").env("PQ_CEX_TRACE", "1").output().unwrap();
            let err = String::from_utf8_lossy(&out.stderr); let last: Vec<&str> = err.lines().filter(|x| !x.trim().is_empty()).collect();
            use std::os::unix::process::ExitStatusExt;
            let sig = out.status.signal().unwrap_or(0);
            let undefined = err.contains("unsafe precondition") || sig == 11 || sig == 7 || sig == 4;
            if undefined {
                println!("FAILING HISTORY (seed {} index {} length {}):", seed, index, l);
                print!("{}", String::from_utf8_lossy(&out.stdout));
                println!("  => [C04,C10] the process was killed during the last operation listed (signal {}): {}", sig, last.iter().rev().take(3).rev().cloned().collect::<Vec<_>>().join(" | "));
                println!("REPLAY: pq-cex replay {} {} {} {}", want, seed, index, l);
                std::process::exit(1);
            }
            benign += 1;
            if mode == "replay" { println!("the history aborts on a safe panic during unwinding (no undefined access): {}", last.last().unwrap_or(&"")); std::process::exit(0); }
            start = index + 1;
            if start >= to { println!("no failing history in {} sequences (seed {}); {} ended in a safe-panic abort", to - from, seed, benign); std::process::exit(0); }
        }
    }
    let trace = std::env::var("PQ_CEX_TRACE").is_ok();
    let progress = std::env::var("PQ_CEX_PROGRESS").ok();
    // panic messages are printed only when a single history is traced (the last one is the abort's)
    if trace { std::panic::set_hook(Box::new(|i| { eprintln!("{}", i.to_string().replace('\n', " ")); })); } else { std::panic::set_hook(Box::new(|_| {})); }
    for index in from..to {
        if let Some(p) = &progress { std::fs::write(p, index.to_string()).ok(); }
        let l = seqlen(index);
        if let Some((what, log)) = one(seed, index, l, want, trace) {
            if !trace { println!("FAILING HISTORY (seed {} index {} length {}):", seed, index, l);
                for (k, s) in log.iter().enumerate() { println!("  {:3}: {}", k, s); } }
            println!("  => {}", what);
            println!("REPLAY: pq-cex replay {} {} {} {}", want, seed, index, l);
            std::process::exit(1);
        }
    }
    if !trace { println!("no failing history in {} sequences (seed {})", to - from, seed); }
}
