#!/bin/bash
# builds and runs the audit against the indexmap version pinned in /repo/Cargo.lock (offline)
set -e
HERE=$(dirname "$(realpath "$0")")
WORK=$(mktemp -d /tmp/pq-imaudit.XXXXXX); trap 'rm -rf "$WORK"' EXIT
cp -r "$HERE/src" "$HERE/Cargo.toml" "$WORK/"
V=$(grep -A1 'name = "indexmap"' /repo/Cargo.lock | grep version | sed 's/.*"\(.*\)"/\1/')
sed -i "s/indexmap = { version = \"2.2\"/indexmap = { version = \"=$V\"/" "$WORK/Cargo.toml"
export CARGO_TARGET_DIR=$WORK/target CARGO_NET_OFFLINE=true
(cd "$WORK" && cargo run --offline -q --release 2>&1 | tail -5)
