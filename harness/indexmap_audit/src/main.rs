//! Audit of the assumed IndexMap contracts (contracts/indexmap_stub.vrs) against the real crate pinned in
//! /repo/Cargo.lock.  Two parts, both *tests of an assumption* (never counted as proof):
//!  (a) signature coercions: every method the stub declares exists with a compatible shape;
//!  (b) runtime conformance: each `ensures` of the stub, phrased over the slot-ordered view, is asserted on
//!      pseudo-random states and arguments (seed = VERIF_SEED).
use indexmap::map::{Entry, IndexMap, MutableKeys};
use std::collections::hash_map::RandomState;

type M = IndexMap<u16, u32, RandomState>;

fn view(m: &M) -> Vec<(u16, u32)> { m.iter().map(|(k, v)| (*k, *v)).collect() }
fn swap_removed(mut v: Vec<(u16, u32)>, i: usize) -> Vec<(u16, u32)> { v.swap_remove(i); v }

#[allow(unused)]
fn signatures() {
    let _: fn(usize, RandomState) -> M = IndexMap::with_capacity_and_hasher;
    let _: fn(&M) -> usize = IndexMap::len;
    let _: fn(&M) -> usize = IndexMap::capacity;
    let _: fn(&mut M) = IndexMap::clear;
    let _: fn(&mut M, usize) = IndexMap::reserve;
    let _: fn(&mut M, usize) = IndexMap::reserve_exact;
    let _: fn(&mut M, usize) -> Result<(), indexmap::TryReserveError> = IndexMap::try_reserve;
    let _: fn(&mut M, usize) -> Result<(), indexmap::TryReserveError> = IndexMap::try_reserve_exact;
    let _: fn(&mut M) = IndexMap::shrink_to_fit;
    let _: for<'a> fn(&'a M, &u16) -> Option<&'a u32> = IndexMap::get::<u16>;
    let _: fn(&M, &u16) -> bool = IndexMap::contains_key::<u16>;
    let _: for<'a> fn(&'a M, &u16) -> Option<(usize, &'a u16, &'a u32)> = IndexMap::get_full::<u16>;
    let _: for<'a> fn(&'a M, usize) -> Option<(&'a u16, &'a u32)> = IndexMap::get_index;
    let _: for<'a> fn(&'a mut M, usize) -> Option<(&'a mut u16, &'a mut u32)> = <M as MutableKeys>::get_index_mut2;
    let _: for<'a> fn(&'a mut M, &u16) -> Option<(usize, &'a u16, &'a mut u32)> = IndexMap::get_full_mut::<u16>;
    let _: for<'a> fn(&'a mut M, &u16) -> Option<(usize, &'a mut u16, &'a mut u32)> = <M as MutableKeys>::get_full_mut2::<u16>;
    let _: fn(&mut M, u16, u32) -> Option<u32> = IndexMap::insert;
    let _: fn(&mut M, u16, u32) -> (usize, Option<u32>) = IndexMap::insert_full;
    let _: for<'a> fn(&'a mut M, u16) -> Entry<'a, u16, u32> = IndexMap::entry;
    let _: fn(&mut M, usize) -> Option<(u16, u32)> = IndexMap::swap_remove_index;
    let _: fn(&mut M, &u16) -> Option<(usize, u16, u32)> = IndexMap::swap_remove_full::<u16>;
    let _: fn(&M, &u16) -> Option<usize> = IndexMap::get_index_of::<u16>;
    let _: fn(&mut M) -> Option<(u16, u32)> = IndexMap::pop;
    let _: fn(&mut M, usize, usize) = IndexMap::swap_indices;
    fn _retain2(m: &mut M) { m.retain2(|_k: &mut u16, _v: &mut u32| true); }
    fn _drain(m: &mut M) { let _ = m.drain(..); }
    fn _eq(a: &M, b: &M) -> bool { a == b }
}

struct Rng(u64);
impl Rng {
    fn next(&mut self) -> u64 { self.0 = self.0.wrapping_mul(6364136223846793005).wrapping_add(1442695040888963407); self.0 >> 33 }
    fn below(&mut self, n: u64) -> u64 { self.next() % n }
}

fn main() {
    let seed: u64 = std::env::var("VERIF_SEED").ok().and_then(|s| s.parse().ok()).unwrap_or(0);
    let rounds: usize = std::env::var("AUDIT_ROUNDS").ok().and_then(|s| s.parse().ok()).unwrap_or(20000);
    let mut rng = Rng(seed ^ 0x9e3779b97f4a7c15);
    let mut m: M = IndexMap::with_capacity_and_hasher(3, RandomState::new());
    assert!(m.capacity() >= 3 && m.is_empty());
    let mut checked = 0usize;
    for _ in 0..rounds {
        let k = rng.below(24) as u16;
        let v = rng.next() as u32;
        let before = view(&m);
        let has = before.iter().position(|e| e.0 == k);
        // no_dup: IndexMap's own invariant
        for (i, a) in before.iter().enumerate() { for b in &before[i + 1..] { assert_ne!(a.0, b.0); } }
        match rng.below(17) {
            0 => { let r = m.insert(k, v); let after = view(&m);
                   match has { Some(i) => { assert_eq!(r, Some(before[i].1)); let mut e = before.clone(); e[i] = (before[i].0, v); assert_eq!(after, e); }
                               None => { assert_eq!(r, None); let mut e = before.clone(); e.push((k, v)); assert_eq!(after, e); } } }
            1 => { let r = m.insert_full(k, v); let after = view(&m);
                   match has { Some(i) => { assert_eq!(r, (i, Some(before[i].1))); let mut e = before.clone(); e[i].1 = v; assert_eq!(after, e); }
                               None => { assert_eq!(r, (before.len(), None)); let mut e = before.clone(); e.push((k, v)); assert_eq!(after, e); } } }
            2 => { let r = m.swap_remove_full(&k);
                   match has { Some(i) => { assert_eq!(r, Some((i, before[i].0, before[i].1))); assert_eq!(view(&m), swap_removed(before.clone(), i)); }
                               None => { assert_eq!(r, None); assert_eq!(view(&m), before); } } }
            3 => { let i = rng.below(before.len() as u64 + 2) as usize; let r = m.swap_remove_index(i);
                   if i < before.len() { assert_eq!(r, Some(before[i])); assert_eq!(view(&m), swap_removed(before.clone(), i)); }
                   else { assert_eq!(r, None); assert_eq!(view(&m), before); } }
            4 => { assert_eq!(m.get(&k).copied(), has.map(|i| before[i].1)); assert_eq!(m.contains_key(&k), has.is_some());
                   assert_eq!(m.get_full(&k).map(|(i, a, b)| (i, *a, *b)), has.map(|i| (i, before[i].0, before[i].1)));
                   assert_eq!(m.get_index_of(&k), has); }
            5 => { let i = rng.below(before.len() as u64 + 2) as usize;
                   assert_eq!(m.get_index(i).map(|(a, b)| (*a, *b)), before.get(i).copied()); }
            6 => { let i = rng.below(before.len() as u64 + 2) as usize;
                   match m.get_index_mut2(i) { Some((kk, vv)) => { assert!(i < before.len()); assert_eq!((*kk, *vv), before[i]); *vv = v; }
                                               None => assert!(i >= before.len()) }
                   let mut e = before.clone(); if i < e.len() { e[i].1 = v; } assert_eq!(view(&m), e); }
            7 => { match m.get_full_mut(&k) { Some((i, kk, vv)) => { assert_eq!(Some(i), has); assert_eq!((*kk, *vv), before[i]); *vv = v; } None => assert!(has.is_none()) }
                   let mut e = before.clone(); if let Some(i) = has { e[i].1 = v; } assert_eq!(view(&m), e); }
            8 => { match m.get_full_mut2(&k) { Some((i, kk, vv)) => { assert_eq!(Some(i), has); assert_eq!((*kk, *vv), before[i]); *vv = v; } None => assert!(has.is_none()) }
                   let mut e = before.clone(); if let Some(i) = has { e[i].1 = v; } assert_eq!(view(&m), e); }
            9 => { match m.entry(k) {
                       Entry::Occupied(mut e) => { let ix = e.index(); assert_eq!(Some(ix), has); assert_eq!(*e.get_mut(), before[ix].1); *e.get_mut() = v; }
                       Entry::Vacant(e) => { assert!(has.is_none()); e.insert(v); } }
                   let mut e = before.clone(); match has { Some(i) => e[i].1 = v, None => e.push((k, v)) } assert_eq!(view(&m), e); }
            10 => { let keep_below = rng.below(30) as u16; m.retain2(|kk, _| *kk < keep_below); assert!(m.len() <= before.len());
                    let e: Vec<_> = before.iter().copied().filter(|x| x.0 < keep_below).collect(); assert_eq!(view(&m), e); }
            16 => { // iter_mut2: every entry once, in slot order, length unchanged; retain2 with a closure that ignores the entries
                    let mut n = 0usize; for (kk, vv) in m.iter_mut2() { assert_eq!((*kk, *vv), before[n]); n += 1; } assert_eq!(n, before.len()); assert_eq!(view(&m), before);
                    // what is written through the references handed out is the entry's final value (the stub's prophecy `fin`)
                    { let mut fin = before.clone(); let mut j = 0usize; for (_kk, vv) in m.iter_mut2() { if j % 2 == 0 { *vv = vv.wrapping_add(7); fin[j].1 = fin[j].1.wrapping_add(7); } j += 1; } assert_eq!(view(&m), fin); }
                    let before = view(&m);
                    let flags: Vec<bool> = (0..before.len() / 2 + rng.below(before.len() as u64 + 2) as usize).map(|_| rng.below(3) != 0).collect();
                    let mut it = flags.clone().into_iter(); m.retain2(|_, _| it.next().unwrap_or(true));
                    let e: Vec<_> = before.iter().copied().enumerate().filter(|(j, _)| flags.get(*j).copied().unwrap_or(true)).map(|x| x.1).collect(); assert_eq!(view(&m), e); }
            11 => { let add = rng.below(40) as usize; m.reserve(add); assert_eq!(view(&m), before); assert!(m.capacity() >= before.len() + add);
                    m.try_reserve(add).unwrap(); assert_eq!(view(&m), before); m.shrink_to_fit(); assert_eq!(view(&m), before); assert!(m.capacity() >= before.len()); }
            12 => { let n = rng.below(4) as usize; let mut d = m.drain(..); let mut got = vec![];
                    for _ in 0..n { if let Some(x) = d.next() { got.push(x); } }
                    assert_eq!(d.len(), before.len() - got.len()); assert_eq!(got[..], before[..got.len()]);
                    if rng.below(2) == 0 { std::mem::forget(d); } else { drop(d); }
                    assert!(m.is_empty()); }
            13 => { let mut it = m.iter(); assert_eq!(it.len(), before.len()); assert_eq!(it.size_hint(), (before.len(), Some(before.len())));
                    if let Some((a, b)) = it.next() { assert_eq!((*a, *b), before[0]); }
                    if before.len() > 1 { let (a, b) = it.next_back().unwrap(); assert_eq!((*a, *b), *before.last().unwrap()); }
                    // nth / nth_back / count / last of the three iterator kinds, as the stub states them
                    let n = before.len(); let k = rng.below(n as u64 + 2) as usize;
                    let back = |k: usize| if k < n { Some(before[n - 1 - k]) } else { None };
                    { let mut it = m.iter(); assert_eq!(it.nth(k).map(|(a, b)| (*a, *b)), before.get(k).copied()); assert_eq!(it.len(), n.saturating_sub(k + 1)); if let Some((a, b)) = it.next() { assert_eq!((*a, *b), before[k + 1]); } }
                    { let mut it = m.iter(); assert_eq!(it.nth_back(k).map(|(a, b)| (*a, *b)), back(k)); assert_eq!(it.len(), n.saturating_sub(k + 1)); if let Some((a, b)) = it.next_back() { assert_eq!((*a, *b), before[n - 2 - k]); } }
                    assert_eq!(m.iter().count(), n); assert_eq!(m.iter().last().map(|(a, b)| (*a, *b)), before.last().copied());
                    { let mut it = m.clone().into_iter(); assert_eq!(it.nth(k), before.get(k).copied()); assert_eq!(it.len(), n.saturating_sub(k + 1)); }
                    { let mut it = m.clone().into_iter(); assert_eq!(it.nth_back(k), back(k)); assert_eq!(it.len(), n.saturating_sub(k + 1)); }
                    assert_eq!(m.clone().into_iter().count(), n); assert_eq!(m.clone().into_iter().last(), before.last().copied());
                    { let mut c = m.clone(); let mut d = c.drain(..); assert_eq!(d.nth(k), before.get(k).copied()); assert_eq!(d.len(), n.saturating_sub(k + 1)); drop(d); assert!(c.is_empty()); }
                    { let mut c = m.clone(); let mut d = c.drain(..); assert_eq!(d.nth_back(k), back(k)); assert_eq!(d.len(), n.saturating_sub(k + 1)); }
                    { let mut c = m.clone(); assert_eq!(c.drain(..).count(), n); let mut c2 = m.clone(); assert_eq!(c2.drain(..).last(), before.last().copied()); } }
            14 => { // order-insensitive equality
                    let mut other: M = IndexMap::with_capacity_and_hasher(0, RandomState::new());
                    for e in before.iter().rev() { other.insert(e.0, e.1); }
                    assert!(m == other); if let Some(e) = before.first() { other.insert(e.0, e.1.wrapping_add(1)); assert!(m != other); } }
            _ => { if !before.is_empty() && rng.below(3) == 0 { let r = m.pop(); assert_eq!(r, before.last().copied()); }
                   else if before.len() >= 2 { let a = rng.below(before.len() as u64) as usize; let b = rng.below(before.len() as u64) as usize;
                        m.swap_indices(a, b); let mut e = before.clone(); e.swap(a, b); assert_eq!(view(&m), e); } }
        }
        checked += 1;
    }
    println!("indexmap audit: {} random operations checked against the stub contracts, seed {}", checked, seed);
}
