#!/bin/bash
# usage: run.sh <repo-path> <scenario>...   builds the replay programs against the crate at <repo-path>
# (debug build: debug assertions and overflow checks on, so an out-of-bounds get_unchecked aborts with
#  "unsafe precondition(s) violated").  Build output goes to $PQ_REPLAY_TARGET (default /tmp/pq-replay-target).
set -e
REPO=$(realpath "$1"); shift
HERE=$(dirname "$(realpath "$0")")
WORK=$(mktemp -d /tmp/pq-replay.XXXXXX)
trap 'rm -rf "$WORK"' EXIT
mkdir -p "$WORK/src"; cp "$HERE/src/main.rs" "$WORK/src/"
sed "s|@REPO@|$REPO|" "$HERE/Cargo.toml.in" > "$WORK/Cargo.toml"
cp /repo/Cargo.lock "$WORK/Cargo.lock" 2>/dev/null || true
export CARGO_TARGET_DIR=${PQ_REPLAY_TARGET:-/tmp/pq-replay-target} CARGO_NET_OFFLINE=true
(cd "$WORK" && cargo build --offline -q 2>&1 | tail -5)
for s in "$@"; do
  echo "--- scenario $s"
  ( RUST_BACKTRACE=0 "$CARGO_TARGET_DIR/debug/pq-replay" "$s" 2>&1 || echo "[exit status $?]" ) | tail -12
done
