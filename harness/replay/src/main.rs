use priority_queue::{PriorityQueue, DoublePriorityQueue};
use std::panic::{catch_unwind, AssertUnwindSafe};
use std::cell::Cell;
use std::cmp::Ordering;

thread_local!{ static FUSE: Cell<i64> = Cell::new(i64::MAX); }
#[derive(Debug, Clone, PartialEq, Eq)]
struct Pr(u32);
impl PartialOrd for Pr { fn partial_cmp(&self, o:&Self)->Option<Ordering>{ Some(self.cmp(o)) } }
impl Ord for Pr { fn cmp(&self, o:&Self)->Ordering { FUSE.with(|f| { let v=f.get(); if v==0 { f.set(i64::MAX); panic!("cmp fuse"); } f.set(v-1); }); self.0.cmp(&o.0) } }

/// a legal size_hint with a huge upper bound, as `(0..usize::MAX).filter(..)` reports
struct WideHint<I>(I);
impl<I: Iterator> Iterator for WideHint<I> {
    type Item = I::Item;
    fn next(&mut self) -> Option<I::Item> { self.0.next() }
    fn size_hint(&self) -> (usize, Option<usize>) { (0, Some(usize::MAX)) }
}

fn main() {
    let which = std::env::args().nth(1).unwrap();
    match which.as_str() {
        "d1" => {
            let mut q = DoublePriorityQueue::new();
            for i in 0..3u32 { q.push(i, i); }
            let mut it = q.iter_mut();
            let a = it.next().unwrap();
            let b = it.next_back().unwrap();
            let c = it.next().unwrap();
            println!("a={:p} b={:p} c={:p} alias(a,c)={}", a.0, b.0, c.0, std::ptr::eq(a.0, c.0));
        }
        "d1b" => {
            let mut q = DoublePriorityQueue::new();
            for i in 0..3u32 { q.push(i, i); }
            let mut it = q.iter_mut();
            let b = it.next_back();
            println!("{:?}", b);
        }
        "d1c" => {
            let mut q = DoublePriorityQueue::new();
            for i in 0..3u32 { q.push(i, i); }
            let mut it = q.iter_mut();
            it.next();
            println!("len after one next = {} (should be 2)", it.len());
        }
        "d2" => {
            let mut q = DoublePriorityQueue::new();
            for i in 0..5u32 { q.push(i, i); }
            let it = q.into_sorted_iter();
            println!("size_hint={:?} len={}", it.size_hint(), it.len());
            println!("take(2).len() = {}", it.take(2).len());
        }
        "d3" => {
            let r: Result<PriorityQueue<u32,u32>,_> = serde_json::from_str("[[1,2],[1,3],[2,5]]");
            match r { Ok(q) => println!("ok len={} iter count={}", q.len(), q.iter().count()), Err(e)=>println!("err {e}") }
        }
        "d4" => {
            let mut q: PriorityQueue<usize,usize> = PriorityQueue::new();
            q.push(1,1);
            q.extend(WideHint(0..3usize).map(|x| (x,x)));
            println!("ok len={}", q.len());
        }
        "d4b" => {
            let q: PriorityQueue<usize,usize> = WideHint(0..3usize).map(|x| (x,x)).collect();
            println!("ok len={}", q.len());
        }
        "d6" => {
            // panic in cmp during push then continue
            let mut q: PriorityQueue<u32, Pr> = PriorityQueue::new();
            for i in 0..7u32 { q.push(i, Pr(i)); }
            FUSE.with(|f| f.set(1));
            let r = catch_unwind(AssertUnwindSafe(|| { q.push(100, Pr(100)); }));
            println!("push panicked: {}", r.is_err());
            FUSE.with(|f| f.set(i64::MAX));
            println!("len={}", q.len());
            for _ in 0..10 { let x = q.pop(); println!("pop -> {:?}", x); }
        }
        "d7" => {
            let mut q = PriorityQueue::new();
            for i in 0..5u32 { q.push(i, i); }
            println!("iter size_hint={:?} len={}", q.iter().size_hint(), q.iter().len());
            println!("into_iter size_hint={:?}", q.clone().into_iter().size_hint());
            println!("drain size_hint={:?}", q.clone().drain().size_hint());
            println!("iter().take(2).len() = {}", q.iter().take(2).len());
        }
        "d8" => {
            // extend strategy dependence on payload
            #[derive(Debug, Clone)] struct It(u32, &'static str);
            impl PartialEq for It { fn eq(&self,o:&Self)->bool{self.0==o.0} } impl Eq for It {}
            impl std::hash::Hash for It { fn hash<H: std::hash::Hasher>(&self,h:&mut H){ self.0.hash(h) } }
            let mut a: PriorityQueue<It,u32> = (0..40).map(|i| (It(i,"old"), i)).collect();
            let mut b = a.clone();
            let v: Vec<(It,u32)> = (0..40).map(|i| (It(i,"new"), 100+i)).collect();
            a.extend(v.clone());                                   // exact hint -> rebuild
            b.extend(v.into_iter().filter(|_| true).map(|x| x));   // lower 0, upper Some(40)
            let mut c: PriorityQueue<It,u32> = (0..40).map(|i| (It(i,"old"), i)).collect();
            struct NoHint<I>(I); impl<I: Iterator> Iterator for NoHint<I> { type Item=I::Item; fn next(&mut self)->Option<I::Item>{self.0.next()} }
            c.extend(NoHint((0..40).map(|i| (It(i,"new"), 100+i))));
            println!("a payload={:?} b payload={:?} c payload={:?}", a.get(&It(3,"")).unwrap().0.1, b.get(&It(3,"")).unwrap().0.1, c.get(&It(3,"")).unwrap().0.1);
        }
        "d9" => {
            // serde tokens: a sequence that announces usize::MAX elements (legal for a Deserializer: the hint is advisory)
            use serde_test::{Token, assert_de_tokens};
            let r = catch_unwind(|| {
                let q: PriorityQueue<u32, u32> = PriorityQueue::new();
                assert_de_tokens(&q, &[Token::Seq { len: Some(usize::MAX) }, Token::SeqEnd]);
            });
            println!("deserializing an empty sequence with size_hint usize::MAX panicked: {}", r.is_err());
        }
        "d10" => {
            // C10: the predicate of retain_mut panics after it has rejected an element; the panic is caught;
            // then only fault-free operations follow
            use std::panic::AssertUnwindSafe;
            let mut q: PriorityQueue<u32, u32> = PriorityQueue::new();
            for i in 0..4u32 { q.push(i, i); }
            std::panic::set_hook(Box::new(|i| { eprintln!("{}", i.to_string().replace('\n', " ")); }));
            let mut n = 0;
            let r = catch_unwind(AssertUnwindSafe(|| q.retain_mut(|_, _| { n += 1; if n == 3 { panic!("user predicate") } false })));
            println!("retain_mut panicked: {}; len() = {}", r.is_err(), q.len());
            // continuation: script of fault-free operations (each one guarded, a safe panic is reported and the script goes on)
            let script = std::env::args().nth(2).unwrap_or("+101 +102 +3 - +3 +0".into());
            for op in script.split_whitespace() {
                let r = catch_unwind(AssertUnwindSafe(|| {
                    if let Some(x) = op.strip_prefix('+') { let x: u32 = x.parse().unwrap(); format!("push({}, {}) -> {:?}", x, x, q.push(x, x)) }
                    else if let Some(x) = op.strip_prefix('c') { let x: u32 = x.parse().unwrap(); format!("change_priority({}, 0) -> {:?}", x, q.change_priority(&x, 0)) }
                    else if let Some(x) = op.strip_prefix('r') { let x: u32 = x.parse().unwrap(); format!("remove({}) -> {:?}", x, q.remove(&x)) }
                    else { format!("pop() -> {:?}", q.pop()) } }));
                match r { Ok(s) => println!("{}", s), Err(_) => println!("{}: safe panic (caught)", op) }
            }
            println!("script finished without an undefined access");
        }
        _ => {}
    }
}
