use vstd::prelude::*;
use std::marker::PhantomData;
use std::mem::replace;
verus! {
pub assume_specification<T> [std::mem::replace] (dest: &mut T, src: T) -> (r: T)
    ensures r == *old(dest), *final(dest) == src;

#[verifier::external_body]
#[verifier::accept_recursive_types(K)]
#[verifier::accept_recursive_types(V)]
#[verifier::accept_recursive_types(S)]
pub struct IndexMap<K, V, S> { _p: PhantomData<(K,V,S)> }

pub uninterp spec fn eqv<K>(a: K, b: K) -> bool;

pub struct OccupiedEntry<'a, K, V, S> { pub map: &'a mut IndexMap<K, V, S>, pub idx: usize, pub key: K }
pub struct VacantEntry<'a, K, V, S> { pub map: &'a mut IndexMap<K, V, S>, pub key: K }
pub enum Entry<'a, K, V, S> { Occupied(OccupiedEntry<'a, K, V, S>), Vacant(VacantEntry<'a, K, V, S>) }

impl<'a, K, V, S> OccupiedEntry<'a, K, V, S> {
    #[verifier::external_body]
    pub fn index(&self) -> (r: usize) ensures r == self.idx { unimplemented!() }
    #[verifier::external_body]
    pub fn get_mut(&mut self) -> (r: &mut V)
        requires old(self).idx < old(self).map@.len()
        ensures *r == old(self).map@[old(self).idx as int].1,
            final(self).idx == old(self).idx, *final(final(self).map) == *final(old(self).map),
            final(self).map@ == old(self).map@.update(old(self).idx as int, (old(self).map@[old(self).idx as int].0, *final(r)))
    { unimplemented!() }
}
impl<'a, K, V, S> VacantEntry<'a, K, V, S> {
    #[verifier::external_body]
    pub fn insert(self, v: V) -> (r: &'a mut V)
        ensures final(self.map)@ == old(self.map)@.push((self.key, v))
    { unimplemented!() }
}

impl<K, V, S> IndexMap<K, V, S> {
    pub uninterp spec fn view(&self) -> Seq<(K, V)>;

    #[verifier::external_body]
    pub fn entry(&mut self, key: K) -> (r: Entry<'_, K, V, S>)
        ensures match r {
            Entry::Occupied(e) => e.idx < old(self)@.len() && eqv(old(self)@[e.idx as int].0, key) && e.map@ == old(self)@ && final(e.map)@ == final(self)@,
            Entry::Vacant(e) => (forall|j:int| 0 <= j < old(self)@.len() ==> !eqv(#[trigger] old(self)@[j].0, key)) && e.key == key && e.map@ == old(self)@ && final(e.map)@ == final(self)@,
        }
    { unimplemented!() }
}

fn push<K, S>(m: &mut IndexMap<K, u32, S>, item: K, priority: u32) -> (oldp: Option<u32>)
    ensures oldp is None ==> final(m)@ == old(m)@.push((item, priority)),
       oldp is Some ==> final(m)@.len() == old(m)@.len()
{
        use Entry::*;
        let mut pos = 0usize;
        let mut oldp = None;

        match m.entry(item) {
            Occupied(mut e) => {
                oldp = Some(replace(e.get_mut(), priority));
                pos = e.index();
            }
            Vacant(e) => {
                e.insert(priority);
            }
        }
        oldp
}
}
fn main() {}
