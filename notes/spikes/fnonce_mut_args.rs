use vstd::prelude::*;
verus! {
pub struct St { pub v: Vec<u32>, pub w: Vec<u32> }

impl St {
pub fn apply<F>(&mut self, position: usize, f: F) -> (r: Option<u32>)
    where F: FnOnce(&mut u32, &mut u32) -> bool,
    requires position < old(self).v.len(), position < old(self).w.len(),
       forall|a: &mut u32, b: &mut u32| f.requires((a, b)),
    ensures final(self).v.len() == old(self).v.len(),
{
    let i = &mut self.v[position];
    let p = &mut self.w[position];
    if f(i, p) {
        Some(*p)
    } else {
        None
    }
}
}
}
fn main() {}
