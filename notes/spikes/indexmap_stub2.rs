verus! {

// ---------- assumed contracts: indexmap (stub standing for the real dependency) ----------
#[verifier::external_body]
#[verifier::accept_recursive_types(K)]
#[verifier::accept_recursive_types(V)]
#[verifier::accept_recursive_types(S)]
pub struct IndexMap<K, V, S> { _p: PhantomData<(K,V,S)> }

/// `a` and `q` are the same key as far as Hash/Eq (Equivalent) are concerned
pub uninterp spec fn eqv<K, Q: ?Sized>(k: K, q: &Q) -> bool;

pub open spec fn has_key<K, V, Q: ?Sized>(s: Seq<(K, V)>, q: &Q) -> bool {
    exists|j: int| 0 <= j < s.len() && eqv(#[trigger] s[j].0, q)
}

impl<K, V, S> IndexMap<K, V, S> {
    pub uninterp spec fn view(&self) -> Seq<(K, V)>;

    #[verifier::external_body]
    pub fn len(&self) -> (r: usize) ensures r == self@.len() { unimplemented!() }

    #[verifier::external_body]
    pub fn get_index(&self, i: usize) -> (r: Option<(&K, &V)>)
        ensures match r {
            Some((k, v)) => i < self@.len() && *k == self@[i as int].0 && *v == self@[i as int].1,
            None => i >= self@.len() }
    { unimplemented!() }

    #[verifier::external_body]
    pub fn get_index_mut2(&mut self, i: usize) -> (r: Option<(&mut K, &mut V)>)
        ensures match r {
            Some((k, v)) => i < old(self)@.len() && *k == old(self)@[i as int].0 && *v == old(self)@[i as int].1
                && final(self)@ == old(self)@.update(i as int, (*final(k), *final(v))),
            None => i >= old(self)@.len() && final(self)@ == old(self)@ }
    { unimplemented!() }

    #[verifier::external_body]
    pub fn swap_remove_index(&mut self, i: usize) -> (r: Option<(K, V)>)
        ensures match r {
            Some(kv) => i < old(self)@.len() && kv == old(self)@[i as int]
                && final(self)@ == (if i == old(self)@.len() - 1 { old(self)@.drop_last() } else { old(self)@.update(i as int, old(self)@.last()).drop_last() }),
            None => i >= old(self)@.len() && final(self)@ == old(self)@ }
    { unimplemented!() }

    #[verifier::external_body]
    pub fn get_full_mut<Q: ?Sized>(&mut self, key: &Q) -> (r: Option<(usize, &K, &mut V)>)
        ensures match r {
            Some((i, k, v)) => i < old(self)@.len() && *k == old(self)@[i as int].0 && *v == old(self)@[i as int].1
                && eqv(*k, key)
                && final(self)@ == old(self)@.update(i as int, (*k, *final(v))),
            None => !has_key(old(self)@, key) && final(self)@ == old(self)@ }
    { unimplemented!() }

    #[verifier::external_body]
    pub fn swap_remove_full<Q: ?Sized>(&mut self, key: &Q) -> (r: Option<(usize, K, V)>)
        ensures match r {
            Some((i, k, v)) => i < old(self)@.len() && (k, v) == old(self)@[i as int] && eqv(k, key)
                && final(self)@ == (if i == old(self)@.len() - 1 { old(self)@.drop_last() } else { old(self)@.update(i as int, old(self)@.last()).drop_last() }),
            None => !has_key(old(self)@, key) && final(self)@ == old(self)@ }
    { unimplemented!() }
}
}
