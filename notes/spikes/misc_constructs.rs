include!("prelude.rs");
verus!{
#[verifier::external_body]
pub fn __size_hint<It: Iterator>(i: &It) -> (r: (usize, Option<usize>)) { i.size_hint() }
pub struct Q { pub v: Vec<u32> }
impl Q {
    pub fn pop(&mut self) -> (r: Option<(u32, u32)>)
        ensures r is Some ==> final(self).v.len() == old(self).v.len() - 1, r is None ==> old(self).v.len() == 0 && final(self).v.len() == 0
    { match self.v.pop() { Some(x) => Some((x, x)), None => None } }
    pub fn build(&mut self) ensures final(self).v.len() == old(self).v.len() {}

    pub fn into_sorted_vec(self) -> (res: Vec<u32>)
        ensures res.len() == self.v.len()
    {
        let mut this = self;
        let mut res = Vec::with_capacity(this.v.len());
        let ghost n0 = this.v.len(); assert(n0 == self.v.len());
        while let Some((i, _)) = this.pop()
            invariant res.len() + this.v.len() == n0
            ensures this.v.len() == 0
            decreases this.v.len()
        {
            res.push(i);
        }
        res
    }
}
pub struct IterMut<'a> { pq: &'a mut Q, pos: usize }
impl<'a> IterMut<'a> {
    fn drop(&mut self)
        ensures final(self).pq.v.len() == old(self).pq.v.len()
    { self.pq.build(); }
    fn next(&mut self) -> (r: Option<u32>)
        requires old(self).pos < usize::MAX
        ensures final(self).pos == old(self).pos + 1
    {
        let r = if self.pos < self.pq.v.len() { Some(self.pq.v[self.pos]) } else { None };
        self.pos += 1;
        r
    }
}
#[verifier::exec_allows_no_decreases_clause]
fn from_iter<IT>(iter: IT) -> (r: Vec<u32>)
    where IT: IntoIterator<Item = (u32, u32)>,
{
    let mut v = Vec::new();
    let iter = iter.into_iter();
    let (min, max) = __size_hint(&iter);
    let mut __it = iter;
    loop {
        match __it.next() {
            Some((item, priority)) => {
                v.push(item);
            }
            None => break,
        }
    }
    v
}
}
fn main(){}
