include!("prelude.rs");
include!("indexmap_stub2.rs");
verus! {

#[derive(Copy, Clone, Debug, Ord, PartialOrd, Eq, PartialEq)]
pub struct Index(pub usize);
#[derive(Copy, Clone, Debug, Ord, PartialOrd, Eq, PartialEq)]
pub struct Position(pub usize);


impl PartialEqSpecImpl for Position {
    open spec fn obeys_eq_spec() -> bool { true }
    open spec fn eq_spec(&self, other: &Position) -> bool { self.0 == other.0 }
}
impl PartialOrdSpecImpl for Position {
    open spec fn obeys_partial_cmp_spec() -> bool { true }
    open spec fn partial_cmp_spec(&self, other: &Position) -> Option<Ordering> {
        if self.0 < other.0 { Some(Ordering::Less) } else if self.0 == other.0 { Some(Ordering::Equal) } else { Some(Ordering::Greater) }
    }
}

pub struct Store<I, P, H> {
    pub map: IndexMap<I, P, H>,
    pub heap: Vec<Index>,
    pub qp: Vec<Position>,
    pub size: usize,
}

/// heap and qp are inverse permutations of 0..n
pub open spec fn tables_inv(heap: Seq<Index>, qp: Seq<Position>, n: int) -> bool {
    &&& heap.len() == n
    &&& qp.len() == n
    &&& forall|p: int| 0 <= p < n ==> 0 <= (#[trigger] heap[p]).0 < n && qp[heap[p].0 as int].0 == p
    &&& forall|i: int| 0 <= i < n ==> 0 <= (#[trigger] qp[i]).0 < n && heap[qp[i].0 as int].0 == i
}

impl<I, P, H> Store<I, P, H> {
    pub open spec fn wf(&self) -> bool {
        &&& self.map@.len() == self.size
        &&& tables_inv(self.heap@, self.qp@, self.size as int)
    }
    /// priority stored at heap position p
    pub open spec fn prio(&self, p: int) -> P { self.map@[self.heap@[p].0 as int].1 }

    #[inline(always)]
    pub fn swap(&mut self, a: Position, b: Position)
        requires old(self).wf(), a.0 < old(self).size, b.0 < old(self).size,
        ensures final(self).wf(), final(self).map@ == old(self).map@, final(self).size == old(self).size,
            final(self).heap@ == old(self).heap@.update(a.0 as int, old(self).heap@[b.0 as int]).update(b.0 as int, old(self).heap@[a.0 as int]),
    {
        self.qp.swap(
            unsafe { self.heap.get_unchecked(a.0) }.0,
            unsafe { self.heap.get_unchecked(b.0) }.0,
        );
        self.heap.swap(a.0, b.0);
    }

    pub fn swap_remove(&mut self, position: Position) -> (r: Option<(I, P)>)
        requires old(self).wf(), position.0 < old(self).size,
        ensures final(self).wf(), final(self).size == old(self).size - 1,
            r == Some(old(self).map@[old(self).heap@[position.0 as int].0 as int]),
    {
        // swap_remove the head
        let head: Index = self.heap.swap_remove(position.0);
        self.size -= 1;

        // Fix indexes and swap remove the old heap head from the qp
        if position.0 < self.size {
            // SAFETY: position validity checked on the previous line.
            // Indexes still point to valid qp items because we didn't
            // remove anything from qp yet
            unsafe {
                *self
                    .qp
                    .get_unchecked_mut(self.heap.get_unchecked(position.0).0) = position;
            }
        }
        self.qp.swap_remove(head.0);
        if head.0 < self.size {
            // SAFETY: head validity checked on the previous line.
            // All positions point to valid heap items because we already
            // updated the qp.
            unsafe {
                *self.heap.get_unchecked_mut(self.qp.get_unchecked(head.0).0) = head;
            }
        }
        // swap remove from the map and return to the client
        self.map.swap_remove_index(head.0)
    }

    #[inline(always)]
    pub unsafe fn get_priority_from_position(&self, position: Position) -> (r: &P)
        requires position.0 < self.heap@.len(), self.heap@[position.0 as int].0 < self.map@.len(),
        ensures *r == self.prio(position.0 as int),
    {
        unsafe {
            self.map
                .get_index(self.heap.get_unchecked(position.0).0)
                .unwrap()
                .1
        }
    }
}


// ---------- order on priorities: the "total Ord" hypothesis of the properties ----------
pub open spec fn le<P: Ord>(a: P, b: P) -> bool {
    a.partial_cmp_spec(&b) != Some(Ordering::Greater)
}
pub open spec fn ord_laws<P: Ord>() -> bool {
    &&& P::obeys_partial_cmp_spec()
    &&& forall|a: P, b: P| (#[trigger] a.partial_cmp_spec(&b) == Some(Ordering::Greater)) ==> b.partial_cmp_spec(&a) == Some(Ordering::Less)
    &&& forall|a: P, b: P| (#[trigger] a.partial_cmp_spec(&b) == Some(Ordering::Less)) ==> b.partial_cmp_spec(&a) == Some(Ordering::Greater)
    &&& forall|a: P| #[trigger] a.partial_cmp_spec(&a) == Some(Ordering::Equal)
    &&& forall|a: P, b: P, c: P| #![trigger a.partial_cmp_spec(&b), b.partial_cmp_spec(&c)] le(a, b) && le(b, c) ==> le(a, c)
}

pub const MAXLEN: usize = 0x0FFF_FFFF_FFFF_FFFF;

#[verifier::external_body]
pub broadcast proof fn axiom_vec_index_len(v: Vec<Index>)
    ensures #[trigger] v@.len() <= MAXLEN
{}

pub struct PriorityQueue<I, P, H> {
    pub store: Store<I, P, H>,
}

pub open spec fn sparent(c: int) -> int { (c - 1) / 2 }

impl<I, P: Ord, H> PriorityQueue<I, P, H> {
    /// both children of position p (where they exist) have priority <= the one at p
    pub open spec fn ord_at(&self, p: int) -> bool {
        let n = self.store.size as int;
        &&& (2 * p + 1 < n ==> le(self.store.prio(2 * p + 1), self.store.prio(p)))
        &&& (2 * p + 2 < n ==> le(self.store.prio(2 * p + 2), self.store.prio(p)))
    }
    #[inline]
    pub fn len(&self) -> (r: usize) ensures r == self.store.size { self.store.size }

    fn heapify(&mut self, mut i: Position)
        requires
            old(self).store.wf(), ord_laws::<P>(),
            old(self).store.size <= 1 || i.0 < old(self).store.size,
            forall|p: int| i.0 < p < old(self).store.size ==> #[trigger] old(self).ord_at(p),
        ensures
            final(self).store.wf(), final(self).store.map@ == old(self).store.map@, final(self).store.size == old(self).store.size,
            forall|p: int| i.0 <= p < final(self).store.size ==> #[trigger] final(self).ord_at(p),
            forall|p: int| 0 <= p < final(self).store.size && p != i.0 && (p == 0 || sparent(p) < i.0) ==> final(self).store.heap@[p] == old(self).store.heap@[p],
            ({ let n = old(self).store.size as int; let l = 2 * i.0 + 1; let r = 2 * i.0 + 2;
               n > 1 ==> (final(self).store.heap@[i.0 as int] == old(self).store.heap@[i.0 as int]
               || (l < n && final(self).store.heap@[i.0 as int] == old(self).store.heap@[l])
               || (r < n && final(self).store.heap@[i.0 as int] == old(self).store.heap@[r])) }),
    {
        broadcast use axiom_vec_index_len;
        if self.len() <= 1 {
            return;
        }

        let (mut l, mut r) = (left(i), right(i));
        let mut largest = i;

        let mut largestp = unsafe { self.store.get_priority_from_position(i) };
        if l.0 < self.len() {
            let childp = unsafe { self.store.get_priority_from_position(l) };
            if childp > largestp {
                largest = l;
                largestp = childp;
            }

            if r.0 < self.len() && unsafe { self.store.get_priority_from_position(r) } > largestp {
                largest = r;
            }
        }

        let ghost i0 = i.0 as int;
        let ghost n = self.store.size as int;
        while largest != i
            invariant
                self.store.wf(), ord_laws::<P>(), self.store.map@ == old(self).store.map@, self.store.size == old(self).store.size,
                n == self.store.size, 1 < n <= MAXLEN,
                0 <= i0 <= i.0 < n, largest.0 < n,
                largest.0 == i.0 || largest.0 == 2 * i.0 + 1 || largest.0 == 2 * i.0 + 2,
                le(self.store.prio(i.0 as int), self.store.prio(largest.0 as int)),
                2 * i.0 + 1 < n ==> le(self.store.prio(2 * i.0 + 1), self.store.prio(largest.0 as int)),
                2 * i.0 + 2 < n ==> le(self.store.prio(2 * i.0 + 2), self.store.prio(largest.0 as int)),
                forall|p: int| i0 <= p < n && p != i.0 ==> #[trigger] self.ord_at(p),
                i.0 != i0 ==> (2 * i.0 + 1 < n ==> le(self.store.prio(2 * i.0 + 1), self.store.prio(sparent(i.0 as int)))),
                i.0 != i0 ==> (2 * i.0 + 2 < n ==> le(self.store.prio(2 * i.0 + 2), self.store.prio(sparent(i.0 as int)))),
                forall|p: int| 0 <= p < n && p != i0 && (p == 0 || sparent(p) < i0) ==> self.store.heap@[p] == old(self).store.heap@[p],
                i.0 == i0 ==> self.store.heap@ == old(self).store.heap@,
                i.0 != i0 ==> (self.store.heap@[i0] == old(self).store.heap@[2 * i0 + 1] || self.store.heap@[i0] == old(self).store.heap@[2 * i0 + 2]),
                i.0 != i0 ==> sparent(i.0 as int) >= i0,
            decreases n - i.0,
        {
            let ghost prev = *self; let ghost pi = i.0 as int; let ghost pl = largest.0 as int;
            self.store.swap(i, largest);

            i = largest;
            let mut largestp = unsafe { self.store.get_priority_from_position(i) };
            l = left(i);
            if l.0 < self.len() {
                let childp = unsafe { self.store.get_priority_from_position(l) };
                if childp > largestp {
                    largest = l;
                    largestp = childp;
                }

                r = right(i);
                if r.0 < self.len()
                    && unsafe { self.store.get_priority_from_position(r) } > largestp
                {
                    largest = r;
                }
            }
            proof {
                assert(sparent(pl) == pi);
                assert forall|p: int| i0 <= p < n && p != i.0 implies #[trigger] self.ord_at(p) by {
                    if p == pi {
                        // new value at pi is the old largest child: dominates both old children and old value
                        assert(self.store.prio(pi) == prev.store.prio(pl));
                    } else {
                        assert(prev.ord_at(p));
                        assert(p != pl);
                        assert(self.store.prio(p) == prev.store.prio(p));
                    }
                }
                assert(prev.ord_at(pl));
                assert forall|p: int| 0 <= p < n && p != i0 && (p == 0 || sparent(p) < i0) implies self.store.heap@[p] == old(self).store.heap@[p] by {
                    assert(pi == i0 || sparent(pi) >= i0);
                    assert(p != pi);
                    assert(p != pl);
                    assert(self.store.heap@[p] == prev.store.heap@[p]);
                }
            }
        }
    }
}

/// Compute the index of the left child of an item from its index
#[inline(always)]
const fn left(i: Position) -> (r: Position)
    requires i.0 <= MAXLEN
    ensures r.0 == 2 * i.0 + 1
{
    Position((i.0 * 2) + 1)
}
/// Compute the index of the right child of an item from its index
#[inline(always)]
const fn right(i: Position) -> (r: Position)
    requires i.0 <= MAXLEN
    ensures r.0 == 2 * i.0 + 2
{
    Position((i.0 * 2) + 2)
}
/// Compute the index of the parent element in the heap from its index
#[inline(always)]
const fn parent(i: Position) -> (r: Position)
    requires i.0 > 0
    ensures r.0 == sparent(i.0 as int)
{
    Position((i.0 - 1) / 2)
}


impl<I, P: Ord, H> PriorityQueue<I, P, H> {
    /// from the leaf go up to root or until an element with priority greater
    /// than the new element is found
    fn bubble_up(&mut self, mut position: Position, map_position: Index) -> (r: Position)
        requires
            ord_laws::<P>(),
            tables_inv(old(self).store.heap@, old(self).store.qp@, old(self).store.heap@.len() as int),
            old(self).store.map@.len() == old(self).store.heap@.len(),
            position.0 < old(self).store.heap@.len(),
            old(self).store.heap@[position.0 as int] == map_position,
        ensures
            tables_inv(final(self).store.heap@, final(self).store.qp@, old(self).store.heap@.len() as int),
            final(self).store.map@ == old(self).store.map@, final(self).store.size == old(self).store.size,
            r.0 <= position.0, final(self).store.heap@[r.0 as int] == map_position,
    {
        broadcast use axiom_vec_index_len;
        let priority = self.store.map.get_index(map_position.0).unwrap().1;
        let mut parent_position = Position(0);
        let ghost n = self.store.heap@.len() as int;
        let ghost p0 = position.0 as int;
        while if position.0 > 0 {
            parent_position = parent(position);
            (unsafe { self.store.get_priority_from_position(parent_position) }) < priority
        } else {
            false
        }
            invariant
                ord_laws::<P>(), n == old(self).store.heap@.len(), self.store.heap@.len() == n, self.store.qp@.len() == n,
                self.store.map@ == old(self).store.map@, self.store.map@.len() == n, self.store.size == old(self).store.size,
                0 <= position.0 <= p0 < n, map_position.0 < n,
                forall|p: int| 0 <= p < n && p != position.0 ==> 0 <= (#[trigger] self.store.heap@[p]).0 < n && self.store.heap@[p] != map_position && self.store.qp@[self.store.heap@[p].0 as int].0 == p,
                forall|i: int| 0 <= i < n && i != map_position.0 ==> 0 <= (#[trigger] self.store.qp@[i]).0 < n && self.store.qp@[i].0 != position.0 && self.store.heap@[self.store.qp@[i].0 as int].0 == i,
                *priority == self.store.map@[map_position.0 as int].1,
            decreases position.0
        {
            unsafe {
                let parent_index = *self.store.heap.get_unchecked(parent_position.0);
                *self.store.heap.get_unchecked_mut(position.0) = parent_index;
                *self.store.qp.get_unchecked_mut(parent_index.0) = position;
            }
            position = parent_position;
        }
        unsafe {
            *self.store.heap.get_unchecked_mut(position.0) = map_position;
            *self.store.qp.get_unchecked_mut(map_position.0) = position;
        }
        position
    }
}
}
fn main(){}
