use vstd::prelude::*;
use vstd::slice::*;
use core::slice::SliceIndex;
use std::marker::PhantomData;
use std::mem::{replace, swap};
use core::cmp::Ordering;
use vstd::std_specs::cmp::*;

verus! {
global layout usize is size == 8;

// ---------- assumed contracts: core/alloc ----------
pub assume_specification<T, I> [<[T]>::get_unchecked::<I>] (s: &[T], i: I) -> (r: &<I as SliceIndex<[T]>>::Output)
    where I: SliceIndex<[T]>,
    requires i.in_bounds(s),
    ensures i.index_postcondition(s, r);

pub assume_specification<T, I> [<[T]>::get_unchecked_mut::<I>] (s: &mut [T], i: I) -> (r: &mut <I as SliceIndex<[T]>>::Output)
    where I: SliceIndex<[T]>,
    requires i.in_bounds(old(s)),
    ensures i.index_mut_postcondition(old(s), final(s), r, final(r));

pub assume_specification<T> [<[T]>::swap] (s: &mut [T], a: usize, b: usize)
    requires a < old(s)@.len(), b < old(s)@.len(),
    ensures final(s)@ == old(s)@.update(a as int, old(s)@[b as int]).update(b as int, old(s)@[a as int]);

pub assume_specification<T> [std::mem::replace] (dest: &mut T, src: T) -> (r: T)
    ensures r == *old(dest), *final(dest) == src;

}
