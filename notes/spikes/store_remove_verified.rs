include!("prelude.rs");
include!("indexmap_stub2.rs");
verus! {

#[derive(Copy, Clone, Debug, Ord, PartialOrd, Eq, PartialEq)]
pub struct Index(pub usize);
#[derive(Copy, Clone, Debug, Ord, PartialOrd, Eq, PartialEq)]
pub struct Position(pub usize);

pub struct Store<I, P, H> {
    pub map: IndexMap<I, P, H>,
    pub heap: Vec<Index>,
    pub qp: Vec<Position>,
    pub size: usize,
}

/// heap and qp are inverse permutations of 0..n
pub open spec fn tables_inv(heap: Seq<Index>, qp: Seq<Position>, n: int) -> bool {
    &&& heap.len() == n
    &&& qp.len() == n
    &&& forall|p: int| 0 <= p < n ==> 0 <= (#[trigger] heap[p]).0 < n && qp[heap[p].0 as int].0 == p
    &&& forall|i: int| 0 <= i < n ==> 0 <= (#[trigger] qp[i]).0 < n && heap[qp[i].0 as int].0 == i
}

impl<I, P, H> Store<I, P, H> {
    pub open spec fn wf(&self) -> bool {
        &&& self.map@.len() == self.size
        &&& tables_inv(self.heap@, self.qp@, self.size as int)
    }
    /// priority stored at heap position p
    pub open spec fn prio(&self, p: int) -> P { self.map@[self.heap@[p].0 as int].1 }

    #[inline(always)]
    pub fn swap(&mut self, a: Position, b: Position)
        requires old(self).wf(), a.0 < old(self).size, b.0 < old(self).size,
        ensures final(self).wf(), final(self).map@ == old(self).map@, final(self).size == old(self).size,
            final(self).heap@ == old(self).heap@.update(a.0 as int, old(self).heap@[b.0 as int]).update(b.0 as int, old(self).heap@[a.0 as int]),
    {
        self.qp.swap(
            unsafe { self.heap.get_unchecked(a.0) }.0,
            unsafe { self.heap.get_unchecked(b.0) }.0,
        );
        self.heap.swap(a.0, b.0);
    }

    pub fn swap_remove(&mut self, position: Position) -> (r: Option<(I, P)>)
        requires old(self).wf(), position.0 < old(self).size,
        ensures final(self).wf(), final(self).size == old(self).size - 1,
            r == Some(old(self).map@[old(self).heap@[position.0 as int].0 as int]),
    {
        // swap_remove the head
        let head: Index = self.heap.swap_remove(position.0);
        self.size -= 1;

        // Fix indexes and swap remove the old heap head from the qp
        if position.0 < self.size {
            // SAFETY: position validity checked on the previous line.
            // Indexes still point to valid qp items because we didn't
            // remove anything from qp yet
            unsafe {
                *self
                    .qp
                    .get_unchecked_mut(self.heap.get_unchecked(position.0).0) = position;
            }
        }
        self.qp.swap_remove(head.0);
        if head.0 < self.size {
            // SAFETY: head validity checked on the previous line.
            // All positions point to valid heap items because we already
            // updated the qp.
            unsafe {
                *self.heap.get_unchecked_mut(self.qp.get_unchecked(head.0).0) = head;
            }
        }
        // swap remove from the map and return to the client
        self.map.swap_remove_index(head.0)
    }

    #[inline(always)]
    pub unsafe fn get_priority_from_position(&self, position: Position) -> (r: &P)
        requires self.wf(), position.0 < self.size,
        ensures *r == self.prio(position.0 as int),
    {
        unsafe {
            self.map
                .get_index(self.heap.get_unchecked(position.0).0)
                .unwrap()
                .1
        }
    }


    pub fn remove<Q>(&mut self, item: &Q) -> (r: Option<(I, P, Position)>)
    where
        Q: ?Sized,
        requires old(self).wf(),
        ensures final(self).wf(),
            match r {
                Some((k, v, pos)) => final(self).size == old(self).size - 1 && pos.0 <= final(self).size
                    && old(self).heap@[pos.0 as int].0 < old(self).size && (k, v) == old(self).map@[old(self).heap@[pos.0 as int].0 as int] && eqv(k, item)
                    // heap: the last heap entry moved into pos, everything else keeps its position (indices renamed by the map's swap-removal)
                    && (forall|p: int| 0 <= p < final(self).size && p != pos.0 ==> final(self).prio(p) == old(self).prio(p))
                    && (pos.0 < final(self).size ==> final(self).prio(pos.0 as int) == old(self).prio(old(self).size - 1)),
                None => final(self).size == old(self).size && final(self).map@ == old(self).map@ && final(self).heap@ == old(self).heap@ && !has_key(old(self).map@, item),
            },
    {
        match self.map.swap_remove_full(item) { Some((i, item, priority)) => Some({
            let i = Index(i);
            self.size -= 1;

            let pos: Position = self.qp.swap_remove(i.0);
            self.heap.swap_remove(pos.0);
            if i.0 < self.size {
                unsafe {
                    let qpi = self.qp.get_unchecked_mut(i.0);
                    if qpi.0 == self.size {
                        *qpi = pos;
                    } else {
                        *self.heap.get_unchecked_mut(qpi.0) = i;
                    }
                }
            }
            if pos.0 < self.size {
                unsafe {
                    let heap_pos = self.heap.get_unchecked_mut(pos.0);
                    if heap_pos.0 == self.size {
                        *heap_pos = i;
                    } else {
                        *self.qp.get_unchecked_mut(heap_pos.0) = pos;
                    }
                }
            }
            (item, priority, pos)
        }), None => None }
    }
}
}
fn main(){}
