#!/usr/bin/env python3
"""audit.py -- structural audits that stand in where no source text can carry a contract.

C14 (clones): Clone of Store / PriorityQueue / DoublePriorityQueue is #[derive]d, so there is no function body to
put a contract on.  Obligations: each of the three structs derives Clone, no manual `impl Clone` exists for them, and
no field type shares state (Rc, Arc, Cell, RefCell, raw pointers, references).  "A clone is equal, independent and
behaves identically" then follows from field-wise cloning of owned data -- an assumption about #[derive], not a proof.

C18 (hasher independence): no function of the crate calls into the hasher itself (BuildHasher / Hasher methods,
`.hasher()`, `hash_one`, `.hash(`): all hashing is IndexMap's.
"""
import os, re, sys
VERIF = os.path.dirname(os.path.dirname(os.path.abspath(__file__)))
sys.path.insert(0, os.path.join(VERIF, "tools"))
import gen

SHARED = re.compile(r"\b(Rc|Arc|Cell|RefCell|UnsafeCell|Mutex|RwLock)\b|\*\s*(mut|const)\b|&")
HASHER_USE = re.compile(r"\.hasher\(\)|\bbuild_hasher\b|\bhash_one\b|\.hash\(|\bHasher::|\bBuildHasher::")


def obligations(pid):
    srcs = gen.run_pqx()
    fns, structs, impls = gen.collect(srcs)
    out = []
    if pid == "C14":
        for name in ("Store", "PriorityQueue", "DoublePriorityQueue"):
            cands = [(src, mod, it) for src, mod, it in structs if it.get("kind") == "struct" and it["name"] == name]
            ok_derive = bool(cands) and all(any(a["path"] == "derive" and re.search(r"\bClone\b", a["text"]) for a in it["attrs"]) for _, _, it in cands)
            out.append({"id": "%s#derive_clone" % name, "ok": ok_derive, "what": "struct %s derives Clone" % name})
            ok_fields = bool(cands) and all(not SHARED.search(src.t(it["fields"])) for src, _, it in cands)
            out.append({"id": "%s#owned_fields" % name, "ok": ok_fields, "what": "no field of %s shares state (Rc/Arc/Cell/pointer/reference)" % name})
            manual = [im for _, _, im in impls if gen.compact(im.get("trait", "")) == "Clone" and re.sub(r"<.*", "", gen.compact(im["self_ty_text"])) == name]
            out.append({"id": "%s#no_manual_clone" % name, "ok": not manual, "what": "no manual impl Clone for %s" % name})
    if pid == "C18":
        for fn in fns:
            body = fn.src.t(fn.node["body"])
            body = re.sub(r"//[^\n]*", "", body)
            hit = HASHER_USE.search(body)
            out.append({"id": fn.key + "#no_hasher_call", "ok": hit is None, "what": "no call into the hasher" + (" (found `%s`)" % hit.group(0) if hit else "")})
    return out


if __name__ == "__main__":
    for o in obligations(sys.argv[1]):
        print("ok  " if o["ok"] else "FAIL", o["id"], "--", o["what"])
