#!/usr/bin/env python3
"""audit.py -- structural audits that stand in where no source text can carry a contract.

C14 (clones): Clone of Store / PriorityQueue / DoublePriorityQueue is #[derive]d, so there is no function body to
put a contract on.  Obligations: each of the three structs derives Clone, no manual `impl Clone` exists for them, and
no field type shares state (Rc, Arc, Cell, RefCell, raw pointers, references).  "A clone is equal, independent and
behaves identically" then follows from field-wise cloning of owned data -- an assumption about #[derive], not a proof.

C14 / C17 (capacity is unobservable): no function outside the capacity API (capacity, reserve*, try_reserve*,
shrink_to_fit, with_capacity*) reads a capacity.  Not met => undecided, never a violation by itself.

C18 (hasher independence): no function of the crate calls into the hasher itself (BuildHasher / Hasher methods,
`.hasher()`, `hash_one`, `.hash(`): all hashing is IndexMap's.

C10 (user code inside a map mutation): IndexMap's methods are under *assumed* contracts that describe normal returns
only; what a map looks like when user code unwinds out of the middle of one of its mutations is not specified by
indexmap and is not something a contract of this crate can constrain (a panic inside `retain2` leaves the entries
shifted and the hash table stale).  Obligation per function: no user-supplied callable or iterator (a parameter whose
type is a type parameter of the function itself: F, T, ...; or a local / closure built from one) is handed to a method of
the IndexMap.  User code then only runs at call sites that are in the extracted text, where the crash-point assertions
(`wf` holds when the call starts) are discharged by Verus.
"""
import os, re, sys
VERIF = os.path.dirname(os.path.dirname(os.path.abspath(__file__)))
sys.path.insert(0, os.path.join(VERIF, "tools"))
import gen

SHARED = re.compile(r"\b(Rc|Arc|Cell|RefCell|UnsafeCell|Mutex|RwLock)\b|\*\s*(mut|const)\b|&")
CAP_API = re.compile(r"^(capacity|reserve|reserve_exact|try_reserve|try_reserve_exact|shrink_to_fit|with_capacity\w*)$")
HASHER_USE = re.compile(r"\.hasher\(\)|\bbuild_hasher\b|\bhash_one\b|\.hash\(|\bHasher::|\bBuildHasher::")


def obligations(pid):
    srcs = gen.run_pqx()
    fns, structs, impls = gen.collect(srcs)
    out = []
    if pid == "C14":
        for name in ("Store", "PriorityQueue", "DoublePriorityQueue"):
            cands = [(src, mod, it) for src, mod, it in structs if it.get("kind") == "struct" and it["name"] == name]
            ok_derive = bool(cands) and all(any(a["path"] == "derive" and re.search(r"\bClone\b", a["text"]) for a in it["attrs"]) for _, _, it in cands)
            out.append({"id": "%s#derive_clone" % name, "ok": ok_derive, "what": "struct %s derives Clone" % name})
            ok_fields = bool(cands) and all(not SHARED.search(src.t(it["fields"])) for src, _, it in cands)
            out.append({"id": "%s#owned_fields" % name, "ok": ok_fields, "what": "no field of %s shares state (Rc/Arc/Cell/pointer/reference)" % name})
            manual = [im for _, _, im in impls if gen.compact(im.get("trait", "")) == "Clone" and re.sub(r"<.*", "", gen.compact(im["self_ty_text"])) == name]
            out.append({"id": "%s#no_manual_clone" % name, "ok": not manual, "what": "no manual impl Clone for %s" % name})
    if pid in ("C14", "C17"):
        # capacity is not part of any contract's view; a function outside the capacity API that reads it can let two equal
        # queues (a queue and its clone, a queue before and after reserve) take different decisions -- a relation between two
        # runs, which no postcondition of one call states.  Not met => undecided (the read may be harmless), the search
        # compares twins that differ in capacity only.
        for fn in fns:
            if CAP_API.match(fn.name):
                continue
            body = re.sub(r"//[^\n]*", "", fn.src.t(fn.node["body"]))
            hit = re.search(r"\.capacity\(\)", body)
            out.append({"id": fn.key + "#no_capacity_read", "ok": hit is None, "what": "no read of a capacity outside the capacity API" + (" (found `.capacity()` in %s)" % fn.key if hit else "")})
    if pid == "C18":
        for fn in fns:
            body = fn.src.t(fn.node["body"])
            body = re.sub(r"//[^\n]*", "", body)
            hit = HASHER_USE.search(body)
            out.append({"id": fn.key + "#no_hasher_call", "ok": hit is None, "what": "no call into the hasher" + (" (found `%s`)" % hit.group(0) if hit else "")})
    if pid == "C10":
        for fn in fns:
            gtext = fn.src.t(fn.node["generics"]) if fn.node.get("generics") else ""
            own = set(re.findall(r"\b([A-Z]\w*)\b\s*(?=[:,>])", gtext)) - {"I", "P", "H"}
            tainted = set(i["name"] for i in fn.node["inputs"] if not i.get("receiver") and i.get("name")
                          and (gen.compact(i["ty_text"]) in own or gen.compact(i["ty_text"]).startswith("impl")))
            hit = None
            if tainted:
                body = re.sub(r"//[^\n]*", "", fn.src.t(fn.node["body"]))
                for _ in range(3):  # locals built from user code are user code
                    for mm in re.finditer(r"\blet\s+(?:mut\s+)?(\w+)\s*(?::[^=;]+)?=\s*([^;]+);", body):
                        if any(re.search(r"\b%s\b" % re.escape(t), mm.group(2)) for t in tainted):
                            tainted.add(mm.group(1))
                for n in gen.walk_tree(fn.node["tree"]):
                    if n["k"] != "MethodCall":
                        continue
                    recv = gen.compact(fn.src.t(n["receiver"]))
                    if not re.search(r"(^|\.)map$", recv):
                        continue
                    for a in n["args"]:
                        at = fn.src.t(a)
                        bad = [t for t in tainted if re.search(r"\b%s\b" % re.escape(t), at)]
                        if bad:
                            hit = "`%s.%s(%s)` runs the caller's `%s` inside a mutation of the IndexMap" % (recv, n["method"], gen.compact(at)[:60], bad[0])
            out.append({"id": fn.key + "#no_user_code_inside_map_call", "ok": hit is None,
                        "what": "no user-supplied callable / iterator is handed to an IndexMap method" + (": " + hit if hit else "")})
    return out


if __name__ == "__main__":
    for o in obligations(sys.argv[1]):
        print("ok  " if o["ok"] else "FAIL", o["id"], "--", o["what"])
