#!/bin/bash
# for every seeded change: does harness/cex find a concrete failing history for its designated property?
# (scratch worktree per seed, removed straight away; result table in notes/cex_results_on_seeds.txt)
cd /verif
export PQ_CEX_WORK=/tmp/pq-cexseeds PQ_CEX_TARGET=/tmp/pq-cexseeds/target PQ_CEX_TIMEOUT=${PQ_CEX_TIMEOUT:-90}
OUT=notes/cex_results_on_seeds.txt; : > $OUT.tmp
for d in seeded/*/; do
  n=$(basename $d); p=$(python3 -c "import json;print(json.load(open('$d/meta.json'))['property'])")
  W=/tmp/pq-cexseed-wt; git -C /repo worktree add -q $W HEAD || exit 2
  git -C $W apply $PWD/$d/patch.diff || { echo "$n [$p]: patch does not apply" >> $OUT.tmp; git -C /repo worktree remove --force $W; continue; }
  r=$(harness/cex/run.sh $W search $p 7 8000 120 | grep -E "^  =>|^no failing|aborted|does not build" | head -1 | cut -c1-220)
  echo "$n [$p]: $r" | tee -a $OUT.tmp
  git -C /repo worktree remove --force $W
done
git -C /repo worktree prune; rm -rf /tmp/pq-cexseeds
mv $OUT.tmp $OUT
