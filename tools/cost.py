#!/usr/bin/env python3
"""cost.py -- generated cost obligations for C05 (DESIGN.md section 4 C05).

Comparison counts cannot be a postcondition on the crate's real signatures, so this part of C05 is a
static derivation over the same syntax trees the contracts are spliced into:

  * a *comparison site* is a place where user `Ord` code runs: a binary comparison one of whose operands is a
    priority (fetched with get_priority_from_position / bound to a name the overlay lists), a call of
    cmp / partial_cmp / max / min, or a `min_by_key` / `max_by_key` over a k-element array (k-1 comparisons);
  * the cost of a function is the number of sites in its body plus the cost of the crate functions it calls;
  * a loop multiplies the cost of its body by its bound: `log` for the six sift loops -- justified by the ghost
    step counter that Verus proves in that loop (clause `<fn>#bound`, checked to exist and to be discharged) --,
    `n` for every other loop; the Floyd loop of heap_build is the one declared exception (`floyd`: the sum of
    the sift heights is O(n); that classical sum is *assumed*, listed in the evidence);
  * every function with a `cost:` attribute in the overlay yields one obligation: derived class <= declared.

Classes: 0 = no comparison, 1 = O(1) (with a count), 2 = O(log n), 3 = O(n), 4 = O(n log n), 5 = worse.
"""
import json
import os
import re
import sys

VERIF = os.path.dirname(os.path.dirname(os.path.abspath(__file__)))
sys.path.insert(0, os.path.join(VERIF, "tools"))
import gen  # noqa: E402

NAMES = {0: "zero", 1: "const", 2: "log", 3: "n", 4: "nlog", 5: "worse"}
RANK = {v: k for k, v in NAMES.items()}
PRIO_WORDS = re.compile(r"get_priority_from_position|\bpriority\b|\bparent_priority\b|\blargestp\b|\bchildp\b|\*\s*p\b|\bnew_priority\b")
INT_LIKE = re.compile(r"^[\w\.\s\(\)]*(\.0|\.len\(\)|\.size|\blen\(\)|\d+)\s*$")


def mul(a, b):
    """cost of repeating b, a times (a = bound class of a loop: 2 log, 3 n)"""
    if b[0] == 0:
        return b
    body = b[0]
    if a == 2:
        return ({1: 2, 2: 5, 3: 4, 4: 5, 5: 5}[body], 0)
    return ({1: 3, 2: 4, 3: 5, 4: 5, 5: 5}[body], 0)


def add(a, b):
    if a[0] <= 1 and b[0] <= 1:
        k = a[1] + b[1]
        return (1 if k > 0 else 0, k)
    return (max(a[0], b[0]), 0)


class Analyzer:
    def __init__(self):
        self.srcs = gen.run_pqx()
        self.fns, _, _ = gen.collect(self.srcs)
        ovdir = os.path.join(VERIF, "contracts/overlay")
        self.recs, _, _ = gen.parse_overlay(sorted(os.path.join(ovdir, f) for f in os.listdir(ovdir) if f.endswith(".ov")))
        self.by_key = {f.key: f for f in self.fns}
        self.memo = {}
        self.trace = {}

    def resolve(self, fn, node):
        """crate function called by a Call / MethodCall node, or None (std / indexmap / user closure)"""
        src = fn.src
        if node["k"] == "MethodCall":
            name = node["method"]
            recv = gen.compact(src.t(node["receiver"]))
            if re.search(r"\.(heap|qp|map|iter)$", recv) or recv.endswith(")") and "store" not in recv and "pq" not in recv:
                return None
            cands = []
            for f in self.fns:
                if f.name != name or f.impl is None:
                    continue
                ty = re.sub(r"<.*", "", gen.compact(f.impl["self_ty_text"])).replace("&'amut", "").replace("&'a", "")
                if recv.endswith(".store") or recv == "store" or recv.endswith("other.store"):
                    if ty == "Store":
                        cands.append(f)
                elif recv in ("self", "this", "pq", "self.pq", "other", "__it0"):
                    if f.mod.split("::")[0] == fn.mod.split("::")[0] and ty != "Store":
                        cands.append(f)
                    elif fn.impl is not None and ty == "Store" and "Store" in fn.impl["self_ty_text"]:
                        cands.append(f)
            # prefer the same module, inherent before trait
            cands.sort(key=lambda f: (f.mod != fn.mod, "trait" in (f.impl or {})))
            return cands[0] if cands else None
        if node["k"] == "Call":
            ft = gen.compact(node["func_text"])
            name = ft.split("::")[-1]
            if ft.startswith("Store::") or ft.startswith("Self::") or "::" not in ft:
                for f in self.fns:
                    if f.name != name:
                        continue
                    if ft.startswith("Store::") and f.impl is not None and "Store" in f.impl["self_ty_text"] and f.mod == "store":
                        return f
                    if "::" not in ft and f.impl is None and f.mod == fn.mod:
                        return f
                    if ft.startswith("Self::") and f.impl is not None and fn.impl is not None and \
                            gen.compact(f.impl["self_ty_text"]) == gen.compact(fn.impl["self_ty_text"]) and f.mod == fn.mod:
                        return f
        return None

    def loop_bound(self, fn, k):
        rec = self.recs.get(fn.key)
        decl = None
        if rec:
            for d in rec.attrs.get("loopbound", "").split(","):
                d = d.split()
                if len(d) == 2 and d[0] == str(k):
                    decl = d[1]
        return decl or "n"

    def cost_node(self, fn, n, chain):
        src = fn.src
        k = n["k"]
        total = (0, 0)
        if k in ("While", "ForLoop", "Loop"):
            inner = (0, 0)
            for c in n["c"]:
                inner = add(inner, self.cost_node(fn, c, chain))
            b = self.loop_bound(fn, n.get("ord", 0))
            if b == "floyd":
                # Floyd's bottom-up construction: the sum of the sift-DOWN heights is O(n).  The exception only holds for a
                # body whose crate calls are sift-downs; n sift-ups (bubble_up) are n log n
                calls = [x["method"] for x in gen.walk_tree(n) if x["k"] == "MethodCall" and self.resolve(fn, x) is not None
                         and self.cost_fn(self.resolve(fn, x), chain)[0] > 0]        # callees that compare at all
                if inner[0] <= 2 and all(c in ("heapify", "heapify_min", "heapify_max") for c in calls):
                    return (3, 0)
                return mul(3, inner)
            return mul(2 if b == "log" else 3, inner)
        if k == "Binary" and n["op"] in ("<", ">", "<=", ">=", "==", "!="):
            l, r = src.t(n["left"]), src.t(n["right"])
            if (PRIO_WORDS.search(l) or PRIO_WORDS.search(r)) and not (INT_LIKE.match(l.strip()) and INT_LIKE.match(r.strip())):
                total = add(total, (1, 1))
        if k == "MethodCall":
            m = n["method"]
            if m in ("cmp", "partial_cmp", "max", "min") and not re.search(r"\.0\b|len\(\)", src.t(n["receiver"])):
                total = add(total, (1, 1))
            # std algorithms that compare: a sort is n log n comparisons, a binary search log n, an extremum over an
            # iterator (not over a literal array, which R3 covers below) n
            if m in ("sort", "sort_by", "sort_by_key", "sort_unstable", "sort_unstable_by", "sort_unstable_by_key", "sort_by_cached_key",
                     "select_nth_unstable", "select_nth_unstable_by", "select_nth_unstable_by_key", "is_sorted", "is_sorted_by", "is_sorted_by_key", "dedup", "dedup_by", "dedup_by_key"):
                total = add(total, (4 if m.startswith("sort") else 3, 0))
            if m in ("binary_search", "binary_search_by", "binary_search_by_key", "partition_point"):
                total = add(total, (2, 0))
            if m in ("max_by", "min_by", "max", "min", "max_by_key", "min_by_key", "position", "rposition", "find", "all", "any", "filter", "take_while", "skip_while", "contains") \
                    and not [x for x in gen.walk_tree(n) if x["k"] == "Array"] \
                    and re.search(r"\.(iter|iter_mut|into_iter|values|keys|drain)\(", src.t(n["receiver"])) and PRIO_WORDS.search(src.t(n["s"], n["e"]) if "s" in n else ""):
                total = add(total, (3, 0))
            if m in ("min_by_key", "max_by_key"):
                arr = [x for x in gen.walk_tree(n) if x["k"] == "Array"]
                kk = len(arr[0]["elems"]) if arr else 2
                total = add(total, (1, max(kk - 1, 1)))
                # the key closure fetches, it does not compare: do not descend into it twice
            callee = self.resolve(fn, n)
            if callee is not None and callee.key != fn.key:
                total = add(total, self.cost_fn(callee, chain))
        if k == "Call":
            callee = self.resolve(fn, n)
            if callee is not None and callee.key != fn.key:
                total = add(total, self.cost_fn(callee, chain))
        for c in n["c"]:
            total = add(total, self.cost_node(fn, c, chain))
        return total

    def cost_fn(self, fn, chain=()):
        if fn.key in self.memo:
            return self.memo[fn.key]
        if fn.key in chain:
            return (5, 0)
        # ordinals as the generator assigns them (loops in source order)
        r = gen.Renderer.__new__(gen.Renderer)
        r.assign_ordinals(fn.node["tree"])
        c = self.cost_node(fn, fn.node["tree"], chain + (fn.key,))
        self.memo[fn.key] = c
        return c


def obligations():
    a = Analyzer()
    out = []
    for key, rec in a.recs.items():
        decl = rec.attrs.get("cost")
        if not decl:
            continue
        fn = a.by_key.get(key)
        if fn is None:
            continue
        got = a.cost_fn(fn)
        d = decl.split(":")
        want = (RANK[d[0]], int(d[1]) if len(d) > 1 else 0)
        ok = got[0] < want[0] or (got[0] == want[0] and (got[0] != 1 or got[1] <= want[1]))
        # loops declared `log` must carry a discharged ghost-counter clause
        needs = []
        for f2 in a.fns:
            r2 = a.recs.get(f2.key)
            if r2 and "log" in r2.attrs.get("loopbound", ""):
                needs.append(f2.key + "#bound")
        out.append({"id": key + "#cost", "fn": key, "declared": decl, "derived": NAMES[got[0]] + (":%d" % got[1] if got[0] == 1 else ""),
                    "ok": ok, "file": fn.src.rel, "line": fn.src.data[:fn.node["fn_token"][0]].count(b"\n") + 1})
    needs = sorted(set(f2.key + "#bound" for f2 in a.fns if a.recs.get(f2.key) and "log" in a.recs[f2.key].attrs.get("loopbound", "")))
    return out, needs


if __name__ == "__main__":
    obs, needs = obligations()
    for o in obs:
        print("%-4s %-75s declared %-8s derived %s" % ("ok" if o["ok"] else "FAIL", o["fn"], o["declared"], o["derived"]))
    print("log loops justified by:", needs)
