#!/usr/bin/env python3
"""dev helper: regenerate and verify only the functions whose key matches a regex.
usage: tools/dev.py <regex> [extra verus args]"""
import json, os, re, subprocess, sys
VERIF = os.path.dirname(os.path.dirname(os.path.abspath(__file__)))
sys.path.insert(0, os.path.join(VERIF, "tools"))
os.environ.setdefault("PQ_ALLOW_MISSING", "1")
import gen
out = os.environ.get("PQ_DEV_OUT", "/tmp/pqdev")
try:
    gen.generate(out)
except gen.Undecided as e:
    print("UNDECIDED:", e); sys.exit(2)
m = json.load(open(os.path.join(out, "map.json")))
for k, f in m["functions"].items():
    if f["mode"] == "undecided": print("UNDECIDED function:", k, "--", f.get("reason"))
pat = re.compile(sys.argv[1])
mods = [f["module"] for k, f in m["functions"].items() if pat.search(k) and f["mode"] not in ("skip", "assumed")]
cmd = ["verus", "pq_verif.rs", "--triggers-mode", "silent", "--num-threads", "16", "--multiple-errors", "5", "--rlimit", "40"]
if sys.argv[1] != ".":
    if os.environ.get("ROOT"): cmd += ["--verify-root"]
    for x in mods: cmd += ["--verify-only-module", x]
cmd += sys.argv[2:]
r = subprocess.run(cmd, cwd=out, capture_output=True, text=True)
txt = r.stdout + r.stderr
txt = re.sub(r"(?s)verus-build-info.*?Toolchain:[^\n]*\n", "", txt)
txt = "\n".join(l for l in txt.split("\n") if not l.startswith("note: verifying") )
print(re.sub(r"\n{3,}", "\n\n", txt)[-int(os.environ.get("TAIL", "6000")):])
