#!/usr/bin/env python3
"""gen.py -- build the Verus input from /repo's working tree.

Every run:  pqx (syn) indexes the source files -> this script copies each function named in
the overlay *by byte range*, applies the declared normalising rewrites (DESIGN.md 2.2) on the
expression tree, splices the contract clauses of /verif/contracts/overlay/*.ov at structural
anchors, and writes  gen/pq_verif.rs  plus  gen/map.json  (clause markers, function table,
rewrite log, obligation counts).

Exit status: 0 ok, 2 = cannot place something (lost anchor, unsupported construct, function
without overlay record).  Never 1.
"""
import hashlib
import json
import os
import re
import subprocess
import sys

VERIF = os.path.dirname(os.path.dirname(os.path.abspath(__file__)))
REPO = os.environ.get("PQ_REPO", "/repo")
PQX = os.path.join(VERIF, "tools/pqx/target/release/pqx")

# source file -> generated module path
FILES = [
    ("src/lib.rs", "lib"),
    ("src/store.rs", "store"),
    ("src/core_iterators.rs", "core_iterators"),
    ("src/priority_queue/mod.rs", "priority_queue"),
    ("src/priority_queue/iterators.rs", "priority_queue::iterators"),
    ("src/double_priority_queue/mod.rs", "double_priority_queue"),
    ("src/double_priority_queue/iterators.rs", "double_priority_queue::iterators"),
]


class Undecided(Exception):
    pass


def die(msg):
    raise Undecided(msg)


# ----------------------------------------------------------------------------- overlay

class Section:
    def __init__(self, anchor, args, tags, cid, text, origin):
        self.anchor = anchor      # requires / ensures / entry / before_tail / loop / after_call / ...
        self.args = args          # list of strings
        self.tags = tags          # list of property ids
        self.cid = cid            # clause id
        self.text = text
        self.origin = origin
        self.used = False


class FnRec:
    def __init__(self, key, origin):
        self.key = key
        self.origin = origin
        self.attrs = {}
        self.rw = []
        self.sections = []
        self.used = False


def parse_overlay(paths):
    fns, mods, order = {}, {}, []
    for path in paths:
        cur = None
        cur_sec = None
        modname = None
        lines = open(path).read().split("\n")
        for ln, line in enumerate(lines, 1):
            origin = "%s:%d" % (os.path.relpath(path, VERIF), ln)
            if line.startswith("#") and not line.startswith("#["):
                continue
            if line.startswith("fn "):
                key = line[3:].strip()
                if key in fns:
                    die("overlay: duplicate record for %s (%s)" % (key, origin))
                cur = FnRec(key, origin)
                fns[key] = cur
                order.append(key)
                cur_sec = None
                modname = None
                continue
            if line.startswith("typeinv "):
                mm = re.match(r"typeinv\s+(\S+)\s*(?:\[([^\]]*)\])?\s*$", line)
                cur = None
                cur_sec = None
                modname = "__typeinv__" + mm.group(1) + "|" + (mm.group(2) or "")
                mods.setdefault(modname, [])
                continue
            if line.startswith("module "):
                modname = line[7:].strip()
                mods.setdefault(modname, [])
                cur = None
                cur_sec = None
                continue
            if modname is not None:
                mods[modname].append(line)
                continue
            if cur is None:
                if line.strip():
                    die("overlay: text outside record at " + origin)
                continue
            s = line.strip()
            if s.startswith("@"):
                m = re.match(r"@(\w+)((?:\s+[^\[\s][^\s]*)*)\s*(?:\[([^\]]*)\])?\s*(\S+)?\s*$", s)
                if not m:
                    die("overlay: bad section header at " + origin)
                anchor = m.group(1)
                args = m.group(2).split()
                tags = [t.strip() for t in (m.group(3) or "").split(",") if t.strip()]
                cid = m.group(4)
                n = len(cur.sections)
                if not cid:
                    cid = "%s#%s%d" % (cur.key, anchor, n)
                else:
                    cid = "%s#%s" % (cur.key, cid)
                cur_sec = Section(anchor, args, tags, cid, "", origin)
                cur.sections.append(cur_sec)
                continue
            if cur_sec is None:
                if not s:
                    continue
                m = re.match(r"(\w+):\s*(.*)$", s)
                if not m:
                    die("overlay: expected `key: value` at " + origin)
                if m.group(1) == "rw":
                    cur.rw.append(m.group(2).split())
                else:
                    cur.attrs[m.group(1)] = m.group(2)
                continue
            cur_sec.text += line + "\n"
    return fns, mods, order


# ----------------------------------------------------------------------------- source model

class Src:
    def __init__(self, rel, mod, data, items):
        self.rel, self.mod, self.data, self.items = rel, mod, data, items

    def t(self, a, b=None):
        if b is None:
            a, b = a
        return self.data[a:b].decode()


def run_pqx():
    paths = [os.path.join(REPO, rel) for rel, _ in FILES]
    for p in paths:
        if not os.path.exists(p):
            die("source file missing: " + p)
    r = subprocess.run([PQX] + paths, capture_output=True)
    if r.returncode != 0:
        die("pqx failed: " + r.stderr.decode())
    d = json.loads(r.stdout)
    out = []
    for (rel, mod), f in zip(FILES, d["files"]):
        data = open(os.path.join(REPO, rel), "rb").read()
        out.append(Src(rel, mod, data, f["items"]))
    return out


def cfg_active(attrs):
    """Evaluate #[cfg(..)] under features {std, serde}; anything else -> undecided."""
    for a in attrs:
        if a["path"] == "cfg":
            txt = re.sub(r"\s+", "", a["text"])
            if txt in ('#[cfg(feature="std")]', '#[cfg(feature="serde")]'):
                continue
            if txt in ('#[cfg(not(feature="std"))]',):
                return False
            if txt in ('#[cfg(test)]', '#[cfg(all(feature="benchmarks",test))]', '#[cfg(all(test,feature="benchmarks"))]'):
                return False
            die("unsupported cfg attribute: " + a["text"])
    return True


def compact(s):
    return re.sub(r"\s+", "", s)


class Fn:
    def __init__(self, src, mod, impl, node):
        self.src, self.mod, self.impl, self.node = src, mod, impl, node
        name = node["name"]
        if impl is None:
            self.key = "%s::%s" % (mod, name)
        else:
            ty = re.sub(r"<.*", "", compact(impl["self_ty_text"]))
            ty = ty.replace("&'amut", "&mut ").replace("&'a", "&")
            self.key = "%s::%s::%s" % (mod, ty, name)
            if "trait" in impl:
                self.key += "@" + compact(impl["trait"])
        self.name = name


def collect(srcs):
    """-> (functions, structs, others) of the active configuration."""
    fns, structs, impls = [], [], []

    def walk(src, mod, items):
        for it in items:
            k = it["kind"]
            if k == "enum":
                structs.append((src, mod, it))
                continue
            if k in ("use", "other", "const", "typealias", "trait"):
                continue
            if not cfg_active(it.get("attrs", [])):
                continue
            if k == "struct":
                structs.append((src, mod, it))
            elif k == "impl":
                impls.append((src, mod, it))
                for sub in it["items"]:
                    if sub["kind"] == "fn":
                        fns.append(Fn(src, mod, it, sub))
            elif k == "fn":
                fns.append(Fn(src, mod, None, it))
            elif k == "mod":
                if "items" in it:
                    name = it["name"]
                    if name in ("tests", "pqueue_tests", "doublepq_tests", "benchmarks", "serde_tests_basics", "serde_tests_custom_structs"):
                        continue
                    walk(src, mod + "::" + name, it["items"])
    for s in srcs:
        walk(s, s.mod, s.items)
    return fns, structs, impls


# ----------------------------------------------------------------------------- rendering

def walk_tree(n):
    yield n
    for c in n["c"]:
        yield from walk_tree(c)


LOOPS = ("While", "ForLoop", "Loop")
RANGE_FOR = re.compile(r"^\(?\s*[\w\.\(\)\s\+\-\*]*\.\.=?[\w\.\(\)\s\+\-\*]*\)?(\s*\.\s*rev\s*\(\s*\))?$", re.S)


def split_top(s):
    out, depth, cur = [], 0, ""
    for ch in s:
        if ch in "<([":
            depth += 1
        elif ch in ">)]":
            depth -= 1
        if ch == "," and depth == 0:
            out.append(cur)
            cur = ""
        else:
            cur += ch
    if cur.strip():
        out.append(cur)
    return out


R21_BOUND = re.compile(r"\b(\w+)\s*:\s*FnMut\(\s*&\s*(\w+)\s*,\s*&\s*(\w+)\s*\)\s*->\s*(\w+)")


class Renderer:
    """Re-emits one function from its source text with rewrites and anchor insertions."""

    def __init__(self, fn, rec, ctx):
        self.fn, self.rec, self.ctx = fn, rec, ctx
        self.src = fn.src
        self.log = []           # rewrites applied
        self.counts = {}        # ordinal counters per node kind / call name
        self.self_name = "self"
        self.assign_ordinals(fn.node["tree"])
        self.sections_by = {}
        for s in rec.sections:
            self.sections_by.setdefault(s.anchor, []).append(s)
        self.rw = {}
        for d in rec.rw:
            self.rw.setdefault(d[0], []).append(d[1:])
        self.synth_loops = 0
        self.r19_flags = {}      # span start of `let [mut] L = V.into_iter();` -> (L, V), where a blind retain2 closure drains L
        # R21: parameters whose type is a type parameter bound by `FnMut(&A, &B) -> R` (shared-reference arguments only)
        self.r21 = {}
        sigtxt = self.src.t(*fn.node["sig_span"])
        for mm in R21_BOUND.finditer(sigtxt):
            for inp in fn.node["inputs"]:
                if not inp.get("receiver") and inp.get("name") and compact(inp.get("ty_text", "")) == mm.group(1):
                    self.r21[inp["name"]] = (mm.group(2), mm.group(3), mm.group(4))
        self.r19_of = {}         # L -> ghost name
        for x in walk_tree(fn.node["tree"]):
            if x["k"] == "MethodCall" and x["method"] == "retain2" and len(x["args"]) == 1:
                c = self.find(x, x["args"][0])
                if c["k"] != "Closure":
                    continue
                mm = re.match(r"^(\w+)\.next\(\)\.unwrap_or\((true|false)\)$", compact(self.src.t(*c["body"])))
                if not mm or [compact(i["text"]) for i in c["inputs"]] != ["_", "_"]:
                    continue
                L = mm.group(1)
                # the last binding of L before the call must be exactly `V.into_iter()` of a local V
                cands = [y for y in walk_tree(fn.node["tree"]) if y["k"] == "Local" and y["e"] <= x["s"]
                         and re.sub(r"\b(mut)\b", "", y.get("pat_text", "")).strip() == L]
                if cands and "init" in cands[-1]:
                    mi = re.match(r"^(\w+)\.into_iter\(\)$", compact(self.src.t(*cands[-1]["init"])))
                    if mi:
                        self.r19_flags[cands[-1]["s"]] = (L, mi.group(1))
                        self.r19_of[L] = "__r19_" + L
        self.plain = getattr(ctx, "plain", False)   # plain Rust (rewrite round trip): no Verus-only syntax, no stub paths
        self.moved_generics, self.moved_where = [], ""
        if fn.impl is not None and "trait" in fn.impl and fn.impl.get("generics_text"):
            # R10: impl parameters that only the trait mentions (PartialEq<Store<I, P2, H2>>) become
            # parameters of the inherent method; the where clause moves with them
            selfty = fn.impl["self_ty_text"]
            for g in split_top(fn.impl["generics_text"][1:-1]):
                nm = g.strip().split(":")[0].strip()
                if nm and not re.search(r"(?<![\w'])%s\b" % re.escape(nm), selfty):
                    self.moved_generics.append(g.strip())
            if self.moved_generics:
                # where-predicates that mention a moved parameter go with it; the others stay on the impl
                names = [g.strip().split(":")[0].strip() for g in self.moved_generics]
                preds = [x.strip() for x in split_top(re.sub(r"^\s*where\s*", "", fn.impl.get("where_text", ""))) if x.strip()]
                mv = [x for x in preds if any(re.search(r"(?<![\w'])%s\b" % re.escape(nm), x) for nm in names)]
                self.kept_where = [x for x in preds if x not in mv]
                for x in mv:
                    # `I: Hash + Eq + Deserialize<'de>`: the bounds that do not mention the moved parameter stay on the impl
                    if ":" in x:
                        lhs, rhs = x.split(":", 1)
                        if not any(re.search(r"(?<![\w'])%s\b" % re.escape(nm), lhs) for nm in names):
                            bs = [b.strip() for b in split_top(rhs.replace("+", ",")) if b.strip()]
                            kb = [b for b in bs if not any(re.search(r"(?<![\w'])%s\b" % re.escape(nm), b) for nm in names)]
                            if kb:
                                self.kept_where.append("%s: %s" % (lhs.strip(), " + ".join(kb)))
                self.moved_where = ("where " + ", ".join(mv)) if mv else ""
        self.assoc_types = {}
        if fn.impl is not None:
            # associated types: of this impl, else of any other trait impl for the same Self type
            # (`Self::Item` inside `impl DoubleEndedIterator` names the Iterator impl's Item)
            tyname = re.sub(r"<.*", "", compact(fn.impl["self_ty_text"]))
            for k, v in ctx.assoc.get((fn.mod, tyname), {}).items():
                self.assoc_types[k] = v
            for sub in fn.impl["items"]:
                if sub["kind"] == "type":
                    self.assoc_types[sub["name"]] = sub["ty"]

    # -- ordinals: loops, ifs, calls by name, closures, in source order
    def assign_ordinals(self, tree):
        cnt = {}
        nodes = sorted(walk_tree(tree), key=lambda n: (n["s"], -n["e"]))
        for n in nodes:
            k = n["k"]
            if k in LOOPS:
                n["ord"] = cnt.get("loop", 0)
                cnt["loop"] = n["ord"] + 1
            elif k == "If":
                n["ord"] = cnt.get("if", 0)
                cnt["if"] = n["ord"] + 1
            elif k == "Match":
                n["ord"] = cnt.get("match", 0)
                cnt["match"] = n["ord"] + 1
            elif k == "Arm":
                n["ord"] = cnt.get("arm", 0)
                cnt["arm"] = n["ord"] + 1
            elif k == "MethodCall":
                key = "call:" + n["method"]
                n["ord"] = cnt.get(key, 0)
                cnt[key] = n["ord"] + 1
            elif k == "Call":
                name = re.sub(r".*::", "", compact(n["func_text"]))
                key = "call:" + name
                n["ord"] = cnt.get(key, 0)
                n["callname"] = name
                cnt[key] = n["ord"] + 1
            elif k == "Binary":
                key = "op:" + n["op"]
                n["ord"] = cnt.get(key, 0)
                cnt[key] = n["ord"] + 1
        self.nloops = cnt.get("loop", 0)

    def t(self, a, b=None):
        return self.src.t(a, b)

    def mark(self, sec, text=None):
        """clause text wrapped in markers so that verifier spans can be mapped back."""
        sec.used = True
        body = (sec.text if text is None else text).rstrip("\n")
        self.ctx.clauses[sec.cid] = {"tags": sec.tags, "fn": self.fn.key, "anchor": sec.anchor,
                                     "args": sec.args, "origin": sec.origin, "text": body.strip()}
        return "/*<%s>*/\n%s\n/*</%s>*/" % (sec.cid, body, sec.cid)

    def secs(self, anchor, *args):
        out = []
        for s in self.sections_by.get(anchor, []):
            if list(args) == s.args[:len(args)]:
                out.append(s)
        return out

    def stmt_text(self, anchor, *args):
        """text of statement-level sections (proof blocks, ghost lets) for an anchor"""
        txt = "".join("\n" + self.mark(s) + "\n" for s in self.secs(anchor, *args))
        if self.ctx.probe and ((anchor == "entry" and not args) or (anchor == "loop" and len(args) == 2 and args[1] == "body_entry")):
            # vacuity probe: this assertion must FAIL; if it verifies, the precondition / loop invariant is contradictory
            pid = "%s#probe.%s" % (self.fn.key, "entry" if anchor == "entry" else "loop" + args[0])
            self.ctx.probes.append(pid)
            txt += "\n/*<%s>*/\nproof { assert(false); }\n/*</%s>*/\n" % (pid, pid)
        return txt

    # -- generic node rendering: source text with rendered children in place
    def render_children(self, n, a=None, b=None):
        a = n["s"] if a is None else a
        b = n["e"] if b is None else b
        out, pos = [], a
        for c in n["c"]:
            if c["e"] <= a or c["s"] >= b:
                continue
            if c["s"] < a or c["e"] > b:
                # partially overlapping child: descend
                out.append(self.t(pos, max(pos, c["s"])))
                out.append(self.render_children(c, max(a, c["s"]), min(b, c["e"])))
                pos = min(b, c["e"])
                continue
            out.append(self.t(pos, c["s"]))
            out.append(self.render(c))
            pos = c["e"]
        out.append(self.t(pos, b))
        return "".join(out)

    def find(self, n, span):
        """node whose span is exactly `span` (closest to the root)"""
        for x in walk_tree(n):
            if x["s"] == span[0] and x["e"] == span[1]:
                return x
        die("%s: internal: no node for span %r" % (self.fn.key, span))

    def rspan(self, n, span):
        """render the sub-expression of n with exactly this span"""
        return self.render(self.find(n, span))

    def render(self, n):
        k = n["k"]
        m = getattr(self, "r_" + k, None)
        if m is not None:
            return m(n)
        return self.render_children(n)

    # -- statements: anchors before/after the statement that contains a given call
    def r_Arm(self, n):
        saved, self.hoist = getattr(self, "hoist", []), []
        head = self.render_children(n, n["s"], n["body"][0])
        body = self.render_children(n, n["body"][0], n["body"][1])
        tail = self.render_children(n, n["body"][1], n["e"])
        h, self.hoist = self.hoist, saved
        entry = self.stmt_text("arm", str(n.get("ord", -1)), "entry")
        if entry:
            h = h + [entry]
        if h:
            return head + "{ " + "".join(h) + body + " }" + tail
        return head + body + tail

    def r_stmt(self, n):
        saved, self.hoist = getattr(self, "hoist", []), []
        body = self.render_children(n)
        h, self.hoist = self.hoist, saved
        body = "".join(h) + body
        pre, post = "", ""
        if not self.plain:
            for x in n["c"]:
                if x["k"] == "Local" and x["s"] in self.r19_flags:
                    L, V = self.r19_flags[x["s"]]
                    pre += "let ghost %s = %s@;\n" % (self.r19_of[L], V)    # the answers the blind closure is going to drain (R19)
        # innermost statement containing the call gets the anchor
        for x in walk_tree(n):
            if x["k"] in ("MethodCall", "Call"):
                name = x.get("method") or x.get("callname")
                tag = "%s#%d" % (name, x["ord"])
                if self.innermost_stmt(n, x) is n:
                    pre += self.stmt_text("before_call", tag)
                    post += self.stmt_text("after_call", tag)
        if post and n["k"] == "StmtExpr" and not n.get("semi") and not self.blocklike(n):
            die("%s: after_call anchor on a tail expression (%s)" % (self.fn.key, self.t(n["s"], n["e"])[:40]))
        return pre + body + post

    r_StmtExpr = r_stmt
    r_StmtLocal = r_stmt
    r_StmtMacro = r_stmt

    def blocklike(self, stmt):
        return bool(stmt["c"]) and stmt["c"][0]["k"] in ("If", "While", "ForLoop", "Loop", "Match", "Unsafe", "BlockExpr")

    def innermost_stmt(self, stmt, target):
        best = stmt
        for x in walk_tree(stmt):
            if x["k"].startswith("Stmt") and x["s"] <= target["s"] and target["e"] <= x["e"]:
                if x["e"] - x["s"] <= best["e"] - best["s"]:
                    best = x
        return best

    # -- blocks with entry/exit insertions
    def render_block(self, blk, entry="", exit_="", unit=False):
        assert blk["k"] == "Block", blk["k"]
        inner = self.render_children(blk, blk["s"] + 1, blk["e"] - 1)
        if exit_:
            stmts = [c for c in blk["c"] if c["k"].startswith("Stmt")]
            if stmts and stmts[-1]["k"] == "StmtExpr" and not stmts[-1].get("semi") and not self.blocklike(stmts[-1]):
                if not unit:
                    die("%s: exit anchor after a tail expression" % self.fn.key)
                # a unit-typed tail expression: `e` -> `e;` (same value, ())
                inner = inner.rstrip() + ";\n"
        return "{" + entry + inner + exit_ + "}"

    def block_of(self, n, span):
        for c in walk_tree(n):
            if c["k"] == "Block" and c["s"] == span[0] and c["e"] == span[1]:
                return c
        die("%s: internal: no block for span" % self.fn.key)

    # -- loops
    def loop_spec(self, k):
        out = []
        for kind in ("invariant_except_break", "invariant", "ensures", "decreases"):
            ss = self.secs("loop", str(k), kind)
            if ss:
                out.append("\n" + kind + "\n")
                for s in ss:
                    txt = s.text.rstrip()
                    if not txt.endswith(","):
                        txt += ","
                    out.append(self.mark(s, txt) + "\n")
        return "".join(out)

    def loop_attrs(self, k):
        return "".join(s.text for s in self.secs("loop", str(k), "attr") if self._use(s))

    def _use(self, s):
        s.used = True
        return True

    def r_While(self, n):
        k = n["ord"]
        body = self.block_of(n, n["body"])
        head = self.render_children(n, n["s"], n["body"][0])
        return (self.stmt_text("loop", str(k), "before") + self.loop_attrs(k) + head + self.loop_spec(k)
                + self.render_block(body, self.stmt_text("loop", str(k), "body_entry"), self.stmt_text("loop", str(k), "body_exit"))
                + self.stmt_text("loop", str(k), "after"))

    def r_Loop(self, n):
        return self.r_While(n)

    def r_ForLoop(self, n):
        k = n["ord"]
        body = self.block_of(n, n["body"])
        it_text = self.t(n["iter"])
        before = self.stmt_text("loop", str(k), "before")
        entry = self.stmt_text("loop", str(k), "body_entry")
        exit_ = self.stmt_text("loop", str(k), "body_exit")
        keep = any(d[0] in ("*", str(k)) for d in self.rw.get("keep_for", []))
        if (RANGE_FOR.match(it_text.strip()) and not self.rw.get("for_to_loop")) or keep:
            # `for x in range` is accepted by Verus as written; the overlay may name the ghost iterator
            head = self.render_children(n, n["s"], n["body"][0])
            gi = self.secs("loop", str(k), "iter_name")
            if gi:
                gi[0].used = True
                pat = self.t(n["pat"])
                head = head.replace("for " + pat + " in", "for " + pat + " in " + gi[0].text.strip() + ":", 1)
            return before + self.loop_attrs(k) + head + self.loop_spec(k) + self.render_block(body, entry, exit_)
        # R7: for PAT in E { B }  ->  { let mut __it = IntoIterator::into_iter(E); loop { match __it.next() { Some(PAT) => B, None => break } } }
        self.log.append("R7 for->loop/match #%d" % k)
        label = n.get("label", "")
        if label:
            die("%s: labelled for loop" % self.fn.key)
        itv = "__it%d" % k
        into = self.into_iter_fn(k)
        return ("{" + before + "let mut %s = %s(%s);\n" % (itv, into, self.rspan(n, n["iter"]))
                + self.stmt_text("loop", str(k), "after_iter")
                + self.loop_attrs(k) + "loop" + self.loop_spec(k) + "{" + entry
                + "match %s.next() { Some(%s) => %s, None => break, }" % (itv, self.t(n["pat"]), self.render_block(
                    body, self.stmt_text("loop", str(k), "for_entry"), self.stmt_text("loop", str(k), "for_exit")))
                + exit_ + "}" + self.stmt_text("loop", str(k), "after") + "}")

    # -- if: branch anchors
    def r_If(self, n):
        k = str(n["ord"])
        out = self.render_children(n, n["s"], n["then"][0])
        then = self.block_of(n, n["then"])
        extra = ""
        cond = self.find(n, n["cond"])
        if cond["k"] == "LetExpr":
            # R17: `if let Some(&x) = E {B}` -> `if let Some(__ref_x) = E { let x = *__ref_x; B }` (reference pattern = copy out)
            ptxt = self.t(cond["pat"])
            m = re.match(r"^Some\(\s*&\s*(\w+)\s*\)$", ptxt.strip())
            if m:
                x = m.group(1)
                out = out.replace(ptxt, "Some(__ref_%s)" % x, 1)
                extra = "let %s = *__ref_%s;\n" % (x, x)
                self.log.append("R17 reference pattern Some(&%s) -> explicit dereference" % x)
        out += self.render_block(then, extra + self.stmt_text("if", k, "then_entry"), self.stmt_text("if", k, "then_exit"),
                                 unit="else" not in n)     # an `if` without `else` has unit type
        if "else" in n:
            out += self.t(n["then"][1], n["else"][0])
            els = self.find(n, n["else"])
            if els["k"] == "BlockExpr":
                out += self.render_block(els["c"][0], self.stmt_text("if", k, "else_entry"), self.stmt_text("if", k, "else_exit"))
            else:
                out += self.render(els)
        return out + self.stmt_text("if", k, "after")

    # -- R8: E?  ->  match E { Ok(v) => v, Err(e) => return Err(From::from(e)) }
    def r_Try(self, n):
        self.log.append("R8 ?->match")
        k = self.counts.get("try", 0)
        self.counts["try"] = k + 1
        conv = "::core::convert::From::from"
        for d in self.rw.get("try_conv", []):
            # try_conv <ordinal|*> <function|id> : the From impl selected by the k-th `?` (trait impls are inherent here)
            if d[0] in ("*", str(k)):
                conv = "" if d[1] == "id" else d[1]
        rt = self.subst_assoc(self.fn.node.get("ret_ty_text", "")).strip()
        if rt.startswith("Option<") and not self.in_closure(n):
            # `?` on an Option in a function returning Option
            self.log[-1] = "R8 ?->match (Option)"
            return "(match %s { Some(__v) => __v, None => return None, })" % self.rspan(n, n["expr"])
        return "(match %s { Ok(__v) => __v, Err(__e) => return Err(%s(__e)), })" % (self.rspan(n, n["expr"]), conv)

    def in_closure(self, n):
        for x in walk_tree(self.fn.node["tree"]):
            if x["k"] == "Closure" and x["s"] <= n["s"] and n["e"] <= x["e"]:
                return True
        return False

    def into_iter_fn(self, k):
        # `rw: into_iter <k> plain`: the expression already is an iterator (IntoIterator::into_iter is the identity on iterators)
        for d in self.rw.get("into_iter", []):
            if d[0] in ("*", str(k)) and d[1] == "plain":
                return ""
            if d[0] in ("*", str(k)) and d[1] == "ref_iter":
                # `for x in &map` : IntoIterator for &IndexMap is `.iter()` (indexmap), stub method
                return "crate::__ref_iter"
        return "::core::iter::IntoIterator::into_iter"

    # -- nested items (use declarations inside bodies)
    def r_Item(self, n):
        txt = compact(self.t(n["s"], n["e"]))
        table = {
            # resolved against the specification stub `crate::indexmap` (in scope through the module imports)
            "useindexmap::map::Entry::*;": "use indexmap::map::Entry::*;",
            "useindexmap::map::MutableKeys;": "use indexmap::map::MutableKeys;",
        }
        if txt not in table:
            if re.match(r"^use(indexmap|std|core|alloc)::", txt):
                return self.t(n["s"], n["e"])      # resolved against the stub / std as written, or a type error (undecided)
            die("%s: unsupported nested item: %s" % (self.fn.key, txt))
        if table[txt] != self.t(n["s"], n["e"]):
            self.log.append("R15 nested use -> stub path")
        return table[txt]

    # -- closures that survive (not consumed by a combinator rewrite)
    def r_Closure(self, n):
        if not self.plain and any(not i["simple_ident"] and not i["typed"] for i in n["inputs"]):
            die("%s: closure with pattern parameters outside a supported combinator" % self.fn.key)
        return self.render_children(n)

    def closure_ok_to_inline(self, c):
        for x in walk_tree(c):
            if x["k"] in ("Return", "Try"):
                die("%s: `return`/`?` inside a closure that would be inlined" % self.fn.key)

    # -- binary: R14  a == b  ->  a.eq(&b)   (overlay-directed)
    def r_Binary(self, n):
        for d in self.rw.get("op_eq", []):
            if n["op"] == "==" and (d[0] == "*" or int(d[0]) == n["ord"]):
                self.log.append("R14 == -> .eq(&..) #%d" % n["ord"])
                return "%s.eq(&%s)" % (self.rspan(n, n["left"]), self.rspan(n, n["right"]))
        return self.render_children(n)

    # -- R20: a call of a new private helper without contract (no loops, no `return`/`?`, unambiguous name) is expanded in
    #    place: { let __i0 = ARG0; ..; let p0 = __i0; ..; BODY[self := RECEIVER] }.  The caller's proof then sees what the
    #    helper does, as it did before the statements were moved out.
    def try_inline(self, name, recv_text, arg_nodes, parent, arg_texts=None):
        h = getattr(self.ctx, "inlinable", {}).get(name)
        if h is None or h.key == self.fn.key or self.plain or getattr(self, "inline_depth", 0) > 2:
            return None
        ins = h.node["inputs"]
        has_recv = bool(ins and ins[0].get("receiver"))
        params = [i for i in ins if not i.get("receiver")]
        if has_recv != (recv_text is not None) or len(params) != len(arg_nodes):
            return None
        if recv_text is not None and not re.match(r"^[A-Za-z_][\w.]*$", recv_text.strip()):
            return None
        if any(not i.get("name") for i in params):
            return None
        sub = Renderer(h, FnRec(h.key, "(inlined)"), self.ctx)
        sub.inline_depth = getattr(self, "inline_depth", 0) + 1
        body = sub.block_of(h.node["tree"], h.node["body"])
        btxt = sub.render_block(body, "", "", unit="ret_ty" not in h.node)
        if recv_text is not None and recv_text.strip() != "self":
            btxt = re.sub(r"(?<![\w.])self\b(?!\s*::)", recv_text.strip(), btxt)
        if h.impl is not None and self.fn.impl is not None and compact(h.impl["self_ty_text"]) != compact(self.fn.impl["self_ty_text"]):
            btxt = re.sub(r"\bSelf\b", re.sub(r"<.*", "", compact(h.impl["self_ty_text"])), btxt)
        pre = "".join("let __i%d = %s;\n" % (k, arg_texts[k] if arg_texts else self.render(a)) for k, a in enumerate(arg_nodes))
        pre += "".join("let %s%s = __i%d;\n" % ("mut " if i.get("mut") else "", i["name"], k) for k, i in enumerate(params))
        self.log += [x for x in sub.log if x not in self.log]     # rewrites applied inside the expansion (an R6 site stays a trusted site of the caller)
        self.log.append("R20 call of the new private helper `%s` expanded in place" % name)
        self.inlined = getattr(self, "inlined", []) + [name]
        return "{ " + pre + btxt + " }"

    # -- calls: path renames (trait methods that became inherent ones)
    def r_Call(self, n):
        ft = compact(n["func_text"])
        tail_name = ft.split("::")[-1]
        if tail_name in getattr(self.ctx, "inlinable", {}) and (ft == tail_name or ft.startswith("Self::") or ft.count("::") == 1):
            r = self.try_inline(tail_name, None, [self.find(n, a) for a in n["args"]], n)
            if r is not None:
                return r
        for d in self.rw.get("call", []):
            if compact(d[0]) == ft:
                self.log.append("R10 call %s -> %s" % (d[0], d[1]))
                args = ", ".join(self.rspan(n, a) for a in n["args"])
                return "%s(%s)" % (d[1], args)
        if ft in ("<_>::default",) or ft.endswith("::default") and not n["args"]:
            r = self.ctx.default_fn(self.fn, ft)
            if r:
                self.log.append("R16 %s() -> %s()" % (ft, r))
                return r + "()"
        return self.render_children(n)

    # -- method calls: combinators and chains
    def r_MethodCall(self, n):
        m = n["method"]
        recv = self.find(n, n["receiver"])
        args = [self.find(n, a) for a in n["args"]]
        mode = None
        for d in self.rw.get("comb", []):
            # comb <method>#<ord> <option|result|keep>
            if d[0] == "%s#%d" % (m, n["ord"]):
                mode = d[1]
        if m in getattr(self.ctx, "inlinable", {}):
            r = self.try_inline(m, self.render(recv), args, n)
            if r is not None:
                return r
        for d in self.rw.get("mcall", []):
            # mcall <method>#<ord|*> <newname> : rename a method call (trait method made inherent)
            if d[0] in ("%s#%d" % (m, n["ord"]), m + "#*"):
                self.log.append("R10 .%s -> .%s" % (m, d[1]))
                return "%s.%s(%s)" % (self.render(recv), d[1], ", ".join(self.render(a) for a in args))
        # R6: laundering of &mut through raw pointers (IterMut::next)
        if m == "map" and args and args[0]["k"] == "Closure" and recv["k"] == "MethodCall" and recv["method"] == "map":
            a1 = compact(self.t(args[0]["s"], args[0]["e"]))
            inner_args = [self.find(recv, a) for a in recv["args"]]
            a0 = compact(self.t(inner_args[0]["s"], inner_args[0]["e"])) if inner_args else ""
            if not self.plain and a0 == "|(i,p)|(ias*mutI,pas*mutP)" and a1 == "|(i,p)|unsafe{(i.as_mut().unwrap(),p.as_mut().unwrap())}":
                self.log.append("R6 raw-pointer reborrow chain -> __launder (trusted identity)")
                base = self.find(recv, recv["receiver"])
                return "crate::__launder(%s)" % self.render(base)
        # R3: ARR.iter()[.map_while(C1)].min_by_key(C2) / max_by_key
        if m in ("min_by_key", "max_by_key") and args and args[0]["k"] == "Closure":
            r = self.try_r3(n, m, recv, args[0])
            if r is not None:
                return r
        # R19: M.retain2(|_, _| L.next().unwrap_or(LIT))  ->  M.__retain2_blind()
        # a closure that ignores both entry arguments and only drains a local iterator of recorded answers: the map keeps
        # a sub-sequence of untouched entries, whatever the answers are.  The closure body (panic-free: next + unwrap_or) is dropped.
        if m == "retain2" and len(args) == 1 and args[0]["k"] == "Closure" and not self.plain:
            c = args[0]
            pats = [compact(i["text"]) for i in c["inputs"]]
            body = compact(self.t(*c["body"]))
            mm = re.match(r"^(\w+)\.next\(\)\.unwrap_or\((true|false)\)$", body)
            if pats == ["_", "_"] and mm and mm.group(1) in self.r19_of and mm.group(2) == "true":
                self.log.append("R19 retain2(closure ignoring the entries, draining the answers recorded in a Vec) -> __retain2_flags(Ghost(answers))")
                return "%s.__retain2_flags(Ghost(%s))" % (self.render(recv), self.r19_of[mm.group(1)])
            if pats == ["_", "_"] and mm:
                self.log.append("R19 retain2(closure ignoring the entries, draining recorded answers) -> __retain2_blind()")
                return "%s.__retain2_blind()" % self.render(recv)
        # R21: X.m(|a, b| F(&*a, &*b)) with F an `FnMut(&A, &B) -> R` parameter: the adapter closure is bound to a name in front
        # of the statement, typed, captures F by shared reference, and states what its one-line body does (Verus verifies the
        # body against that clause): its result is F's on the same values, and it writes nothing
        if len(args) == 1 and args[0]["k"] == "Closure" and not self.plain and self.r21:
            c = args[0]
            pats = [compact(i["text"]) for i in c["inputs"]]
            body = compact(self.t(*c["body"]))
            mm = re.match(r"^(\w+)\(&\*(\w+),&\*(\w+)\)$", body) or re.match(r"^(\w+)\((\w+),(\w+)\)$", body)
            if mm and mm.group(1) in self.r21 and pats == [mm.group(2), mm.group(3)] and pats[0] != pats[1]:
                A, B, R = self.r21[mm.group(1)]
                a, b = pats
                self.hoist.append("let __pr21 = &%s;\nlet __cl21 = |%s: &mut %s, %s: &mut %s| -> (__r: %s)\n"
                                  "    ensures (*__pr21).ensures((&*old(%s), &*old(%s)), __r), *final(%s) == *old(%s), *final(%s) == *old(%s),\n"
                                  "    { (*__pr21)(&*%s, &*%s) };\nlet ghost __g21 = __cl21;\n"
                                  % (mm.group(1), a, A, b, B, R, a, b, a, a, b, b, a, b))
                self.log.append("R21 adapter closure |a, b| F(&*a, &*b) bound to a name, typed, with the clause its body is verified against")
                return "%s.%s(__cl21)" % (self.render(recv), m)
        # R12: size_hint of a generic iterator
        if m == "size_hint" and not args and self.rw.get("size_hint_stub"):
            self.log.append("R12 .size_hint() -> __size_hint(&..)")
            return "crate::__size_hint(&%s)" % self.render(recv)
        # R18: RANGE[.map(Ctor)].all(|pat| body) / .any(..)  ->  loop with early exit (definition of Iterator::all / any)
        if m in ("all", "any") and len(args) == 1 and args[0]["k"] == "Closure":
            base, ctor = recv, None
            if base["k"] == "MethodCall" and base["method"] == "map":
                margs = [self.find(base, a) for a in base["args"]]
                if len(margs) == 1 and margs[0]["k"] == "Path":
                    ctor = self.render(margs[0])
                    base = self.find(base, base["receiver"])
            if RANGE_FOR.match(self.t(base["s"], base["e"]).strip()) and (ctor is not None or base is recv):
                c = args[0]
                self.closure_ok_to_inline(c)
                pat = c["inputs"][0]["text"]
                body = self.render(self.find(c, c["body"]))
                k = self.nloops + self.synth_loops
                self.synth_loops += 1
                self.log.append("R18 range.%s(closure) -> loop with early exit (synthesized loop #%d)" % (m, k))
                init, hit = ("true", "!") if m == "all" else ("false", "")
                head = ("for __x in %s" % self.render(base)) if self.plain else ("for __x in __r%d: %s" % (k, self.render(base)))
                bind = "let %s = %s;" % (pat, ("%s(__x)" % ctor) if ctor else "__x")
                return ("{ let mut __res = %s;\n" % init + self.stmt_text("loop", str(k), "before") + head + self.loop_spec(k)
                        + "{ %s if %s(%s) { __res = %s; break; } }" % (bind, hit, body, "false" if m == "all" else "true")
                        + self.stmt_text("loop", str(k), "after") + " __res }")
        # R13b: V.extend(RANGE.map(f))  ->  for x in RANGE { V.push(f(x)); }   (Extend for Vec over an iterator = push each)
        if m == "extend" and len(args) == 1 and args[0]["k"] == "MethodCall" and args[0]["method"] == "map":
            inner = args[0]
            base = self.find(inner, inner["receiver"])
            fargs = [self.find(inner, a) for a in inner["args"]]
            if RANGE_FOR.match(self.t(base["s"], base["e"]).strip()) and len(fargs) == 1 and fargs[0]["k"] in ("Path", "Closure"):
                f = fargs[0]
                if f["k"] == "Closure":
                    self.closure_ok_to_inline(f)
                    pat, val = f["inputs"][0]["text"], self.render(self.find(f, f["body"]))
                else:
                    pat, val = "__x", "%s(__x)" % self.render(f)
                k = self.nloops + self.synth_loops
                self.synth_loops += 1
                self.log.append("R13b V.extend(range.map(f)) -> push loop (synthesized loop #%d)" % k)
                head = ("for %s in %s" % (pat, self.render(base))) if self.plain else ("for %s in __r%d: %s" % (pat, k, self.render(base)))
                return ("{" + self.stmt_text("loop", str(k), "before") + head + self.loop_spec(k) + "{ %s.push(%s); }" % (self.render(recv), val)
                        + self.stmt_text("loop", str(k), "after") + "}")
        # R13: E.map(closure|Ctor).collect()
        if m == "collect" and recv["k"] == "MethodCall" and recv["method"] == "map":
            r = self.try_r13(n, recv)
            if r is not None:
                return r
        # R2 (filter): E.filter(|pat| C)  ->  match E { Some(__f) => { let pat' = ..; if C { Some(__f) } else { None } }, None => None }
        # (Option::filter passes a reference: `|&x|` copies the value out, `|x|` binds the reference)
        if m == "filter" and len(args) == 1 and args[0]["k"] == "Closure" and mode != "keep" and not self.plain \
                and not (recv["k"] == "MethodCall" and recv["method"] in ("iter", "into_iter", "iter_mut", "map", "filter", "zip", "rev", "enumerate")):
            c = args[0]
            self.closure_ok_to_inline(c)
            pats = [i["text"] for i in c["inputs"]]
            if len(pats) == 1:
                pat = pats[0].strip()
                bind = "let %s = __f;" % pat[1:].strip() if pat.startswith("&") else "let %s = &__f;" % pat
                self.log.append("R2 .filter(closure) -> match #%d" % n["ord"])
                return "(match %s { Some(__f) => { %s if %s { Some(__f) } else { None } }, None => None, })" % (
                    self.render(recv), bind, self.render(self.find(c, c["body"])))
        # R2 + R20: E.map(helper) with a new private helper passed as a function value: eta-expanded, then expanded in place
        if m in ("map", "and_then") and len(args) == 1 and args[0]["k"] == "Path" and mode != "keep" and not self.plain \
                and compact(args[0].get("text", "")).split("::")[-1] in getattr(self.ctx, "inlinable", {}):
            body = self.try_inline(compact(args[0]["text"]).split("::")[-1], None, [args[0]], n, arg_texts=["__x"])
            if body is not None:
                some, none_pat, none_val = ("Some", "None", "None") if (mode or "option") == "option" else ("Ok", "Err(__e)", "Err(__e)")
                self.log.append("R2 .%s(function value) -> match (%s) #%d" % (m, mode or "option", n["ord"]))
                if m == "map":
                    return "(match %s { %s(__x) => %s(%s), %s => %s, })" % (self.render(recv), some, some, body, none_pat, none_val)
                return "(match %s { %s(__x) => %s, %s => %s, })" % (self.render(recv), some, body, none_pat, none_val)
        # R2: Option / Result combinators with a literal closure
        if m in ("map", "and_then", "map_or") and args and args[-1]["k"] == "Closure" and mode != "keep":
            c = args[-1]
            self.closure_ok_to_inline(c)
            if mode is None:
                mode = "option"
            pats = [i["text"] for i in c["inputs"]]
            if len(pats) != 1:
                die("%s: combinator closure with %d parameters" % (self.fn.key, len(pats)))
            pat = pats[0]
            body = self.render(self.find(c, c["body"]))
            e = self.render(recv)
            self.log.append("R2 .%s(closure) -> match (%s) #%d" % (m, mode, n["ord"]))
            some, none_pat, none_val = ("Some", "None", "None") if mode == "option" else ("Ok", "Err(__e)", "Err(__e)")
            nt = self.stmt_text("comb", "%s#%d" % (m, n["ord"]), "none")
            if nt:
                none_val = "{" + nt + none_val + "}"
            if m == "map":
                return "(match %s { %s(%s) => %s(%s), %s => %s, })" % (e, some, pat, some, body, none_pat, none_val)
            if m == "and_then":
                return "(match %s { %s(%s) => %s, %s => %s, })" % (e, some, pat, body, none_pat, none_val)
            if m == "map_or":
                if mode != "option" or args[0]["k"] not in ("Lit", "Path"):
                    die("%s: map_or with a non-trivial default" % self.fn.key)
                return "(match %s { Some(%s) => %s, None => %s, })" % (e, pat, body, self.render(args[0]))
        return self.render_children(n)

    def try_r3(self, n, m, recv, keyc):
        chain = recv
        mapwhile = None
        if chain["k"] == "MethodCall" and chain["method"] == "map_while":
            mw_args = [self.find(chain, a) for a in chain["args"]]
            if not mw_args or mw_args[0]["k"] != "Closure":
                return None
            mapwhile = mw_args[0]
            chain = self.find(chain, chain["receiver"])
        if not (chain["k"] == "MethodCall" and chain["method"] == "iter" and not chain["args"]):
            return None
        arr = self.find(chain, chain["receiver"])
        if arr["k"] != "Array":
            return None
        self.closure_ok_to_inline(keyc)
        elems = [self.rspan(arr, e) for e in arr["elems"]]
        kpat = keyc["inputs"][0]["text"]
        kbody = self.render(self.find(keyc, keyc["body"]))
        self.log.append("R3 [..].iter()%s.%s(..) -> unrolled fold over %d candidates" % (".map_while(..)" if mapwhile else "", m, len(elems)))
        uid = "%d" % n["s"]
        # the candidate array is hoisted in front of the enclosing statement / match arm (it must outlive the references)
        self.hoist.append("let __a = [%s];\n" % ", ".join(elems))
        out = ["{ let mut __best = None;\n let mut __go = true;\n"]
        keep_b = "::core::cmp::Ordering::Greater => Some(__y), _ => Some(__b)" if m == "min_by_key" else "::core::cmp::Ordering::Greater => Some(__b), _ => Some(__y)"
        for j in range(len(elems)):
            if mapwhile is not None:
                self.closure_ok_to_inline(mapwhile)
                mpat = mapwhile["inputs"][0]["text"]
                mbody = self.render(self.find(mapwhile, mapwhile["body"]))
                cand = "{ let %s = &__a[%d]; %s }" % (mpat, j, mbody)
            else:
                cand = "Some(&__a[%d])" % j
            out.append(
                "if __go { match %s {\n None => { __go = false; }\n Some(__y) => { __best = match __best { None => Some(__y), Some(__b) => {\n"
                " let __kb = { let %s = &__b; %s };\n let __ky = { let %s = &__y; %s };\n"
                " match ::core::cmp::Ord::cmp(&__kb, &__ky) { %s } } }; } } }\n"
                % (cand, kpat, kbody, kpat, kbody, keep_b))
            out.append(self.stmt_text("r3", "after_candidate", str(j)))
        out.append(self.stmt_text("r3", "end"))
        out.append(" __best }")
        return "".join(out)

    def try_r13(self, n, recv):
        margs = [self.find(recv, a) for a in recv["args"]]
        if len(margs) != 1:
            return None
        base = self.find(recv, recv["receiver"])
        k = self.nloops + self.synth_loops
        self.synth_loops += 1
        f = margs[0]
        if f["k"] == "Closure":
            self.closure_ok_to_inline(f)
            pat = f["inputs"][0]["text"]
            val = self.render(self.find(f, f["body"]))
        elif f["k"] == "Path":
            pat, val = "__x", "%s(__x)" % self.render(f)     # R4 eta-expansion of a constructor
        else:
            return None
        self.log.append("R13 E.map(f).collect() -> push loop (synthesized loop #%d)" % k)
        vty = ""
        for d in self.rw.get("collect_ty", []):
            # collect_ty <k> <type> : ghost-irrelevant type annotation for the collected Vec (rustc checks it)
            if d[0] == str(k):
                vty = ": " + " ".join(d[1:])
        if RANGE_FOR.match(self.t(base["s"], base["e"]).strip()):
            return ("{ let mut __v%s = Vec::new();\n" % vty + self.stmt_text("loop", str(k), "before") + self.loop_attrs(k)
                    + ("for %s in %s" % (pat, self.render(base)) if self.plain else "for %s in __r%d: %s" % (pat, k, self.render(base))) + self.loop_spec(k)
                    + "{" + self.stmt_text("loop", str(k), "body_entry") + " __v.push(%s);" % val
                    + self.stmt_text("loop", str(k), "body_exit") + "}\n"
                    + self.stmt_text("loop", str(k), "after") + " __v }")
        into = self.into_iter_fn(k)
        return ("{ let mut __v%s = Vec::new();\n let mut __it%d = %s(%s);\n" % (vty, k, into, self.render(base))
                + self.stmt_text("loop", str(k), "before") + self.loop_attrs(k) + "loop" + self.loop_spec(k)
                + "{" + self.stmt_text("loop", str(k), "body_entry")
                + " match __it%d.next() { Some(%s) => { __v.push(%s); } None => break, }" % (k, pat, val)
                + self.stmt_text("loop", str(k), "body_exit") + "}\n"
                + self.stmt_text("loop", str(k), "after") + " __v }")

    # -- whole function
    def render_fn(self, stub_body=False):
        fn, rec, node = self.fn, self.rec, self.fn.node
        sig_a, sig_b = node["sig_span"]
        name = rec.attrs.get("name", node["name"])
        ret = rec.attrs.get("ret")
        # signature: qualifiers + fn + name + generics + params
        fgen = self.t(node["name_span"][1], node["paren"][0])
        if self.moved_generics:
            inner = fgen.strip()[1:-1] if fgen.strip() else ""
            fgen = "<" + ", ".join(self.moved_generics + ([inner] if inner else [])) + ">"
            self.log.append("R10 trait-only impl parameters moved to the method: " + ", ".join(self.moved_generics))
        head = self.t(sig_a, node["name_span"][0]) + name + fgen
        params = self.t(node["paren"][0], node["paren"][1])
        body_pre = ""
        # R11: `mut self` / `mut x` parameters -> rebinding at body entry
        for inp in node["inputs"]:
            if inp["receiver"] and inp["mut"] and not inp["ref"]:
                params = params.replace("mut self", "self", 1)
                body_pre += "let mut this = self;\n"
                self.self_name = "this"
                self.log.append("R11 mut self -> let mut this = self")
        if fn.impl is not None and "self_ref" in fn.impl:
            # impl Trait for &'a T { fn f(self) }  ->  impl T { fn f(self: &'a Self) }
            sr = fn.impl["self_ref"]
            lt = sr["lifetime"] or ""
            params = re.sub(r"\(\s*self\b", "(self: &%s %sSelf" % (lt, "mut " if sr["mut"] else ""), params, 1)
            self.log.append("R10 reference Self type -> explicit receiver")
        tail = ""
        if "ret_ty" in node:
            rt = self.t(node["ret_ty"])
            rt = self.subst_assoc(rt)
            tail = " -> (%s: %s)" % (ret, rt) if ret else " -> " + rt
            after_ret = node["ret_ty"][1]
        else:
            after_ret = node["paren"][1]
        where = self.subst_assoc(self.t(after_ret, sig_b))      # `Self::Item` in a where clause of a trait method made inherent
        params = self.subst_assoc(params)
        if R21_BOUND.search(head) or R21_BOUND.search(where):
            # R21: a bound `FnMut(&A, &B) -> R` is written `Fn(&A, &B) -> R`.  Verus does not track a closure's own state (it
            # models every closure as a fixed relation between arguments and result), so nothing it checks is dropped; what
            # it gains is that an adapter closure `|a, b| f(&*a, &*b)` can capture `f` by shared reference (capturing by mutable
            # reference is outside Verus' closure support)
            head = R21_BOUND.sub(lambda m: m.group(0).replace("FnMut(", "Fn("), head)
            where = R21_BOUND.sub(lambda m: m.group(0).replace("FnMut(", "Fn("), where)
            self.log.append("R21 bound FnMut(&A, &B) -> R written Fn(&A, &B) -> R (closure state is not tracked by Verus)")
        if self.moved_where:
            mw = self.moved_where.strip()
            where = (" " + mw) if not where.strip() else where.rstrip().rstrip(",") + ", " + re.sub(r"^where\s*", "", mw)
        spec = ""
        for kind in ("requires", "ensures", "decreases"):
            ss = self.secs(kind)
            if ss:
                spec += "\n" + kind + "\n"
                for s in ss:
                    txt = s.text.rstrip()
                    if not txt.endswith(","):
                        txt += ","
                    spec += self.mark(s, txt) + "\n"
        if getattr(self, "plain", False):
            # rewrite round trip: the function as it stands in the source, with only the body (and `mut self`) rewritten
            body = self.block_of(node["tree"], node["body"])
            btxt = self.render_block(body, body_pre, "")
            if self.self_name != "self":
                btxt = re.sub(r"\bself\b", "this", btxt).replace("let mut this = this;", "let mut this = self;", 1)
            sig = self.t(node["fn_token"][0] if "fn_token" in node else sig_a, node["body"][0])
            if self.self_name != "self":
                sig = sig.replace("mut self", "self", 1)
            return sig, btxt
        if stub_body:
            attrs = "#[verifier::external_body]\n"
            text = "%spub %s%s%s%s%s\n{ unimplemented!() }" % (attrs, head, params, tail, where, spec)
            return "/*<fn %s>*/\n%s\n/*</fn %s>*/" % (fn.key, text, fn.key)
        body = self.block_of(node["tree"], node["body"])
        entry = body_pre + self.stmt_text("entry")
        # before_tail: insert before the last statement of the body
        bt = self.stmt_text("before_tail")
        if bt:
            stmts = [c for c in body["c"] if c["k"].startswith("Stmt")]
            if not stmts:
                die("%s: before_tail on empty body" % fn.key)
            last = stmts[-1]
            inner = self.render_children(body, body["s"] + 1, last["s"]) + bt + self.render_children(body, last["s"], body["e"] - 1)
            btxt = "{" + entry + inner + self.stmt_text("exit") + "}"
        else:
            btxt = self.render_block(body, entry, self.stmt_text("exit"), unit="ret_ty" not in node)
        if self.self_name != "self":
            # rename in the code only: clause text (between markers) keeps talking about `self`, the parameter
            parts = re.split(r"(/\*<[^/](?:(?!>\*/).)*>\*/.*?/\*</(?:(?!>\*/).)*>\*/)", btxt, flags=re.S)
            btxt = "".join(x if x.startswith("/*<") else re.sub(r"\bself\b", "this", x) for x in parts)
            btxt = btxt.replace("let mut this = this;", "let mut this = self;", 1)
        btxt = self.subst_assoc(btxt)
        attrs = "".join(a["text"] + "\n" for a in node["attrs"] if a["path"] in ("inline",))
        attrs += "".join(s.text for s in self.secs("attr") if self._use(s))
        vis = "pub "
        text = "%s%s%s%s%s%s%s\n%s" % (attrs, vis, head, params, tail, where, spec, btxt)
        text = "/*<fn %s>*/\n%s\n/*</fn %s>*/" % (fn.key, text, fn.key)
        return text

    def subst_assoc(self, s):
        for k, v in self.assoc_types.items():
            s = re.sub(r"\bSelf::%s\b" % k, v, s)
        return s


# ----------------------------------------------------------------------------- context / assembly

class Ctx:
    plain = False

    def __init__(self):
        self.clauses = {}
        self.probe = False
        self.probes = []

    def into_iter_fn(self, fn, k, it_text):
        # user iterators (generic IntoIterator) keep the trait call; the overlay can override
        return "::core::iter::IntoIterator::into_iter"

    def try_conv(self, fn):
        return "::core::convert::From::from"

    def default_fn(self, fn, ft):
        return None


def count_sites(tree):
    """syntactic count of built-in obligation sites in a body"""
    c = {"unchecked": 0, "unwrap": 0, "arith": 0, "index": 0, "call": 0, "cast": 0}
    for n in walk_tree(tree):
        k = n["k"]
        if k == "MethodCall":
            c["call"] += 1
            if n["method"] in ("get_unchecked", "get_unchecked_mut"):
                c["unchecked"] += 1
            if n["method"] in ("unwrap", "expect"):
                c["unwrap"] += 1
        elif k == "Call":
            c["call"] += 1
        elif k == "Binary" and n["op"] in ("+", "-", "*", "/", "%", "+=", "-=", "*=", "/=", "<<", ">>"):
            c["arith"] += 1
        elif k == "Index":
            c["index"] += 1
        elif k == "Cast":
            c["cast"] += 1
    return c


def struct_text(src, it, keep_derive):
    """struct / enum definition as written, minus attributes and default type parameters;
    visibility widened to `pub` (Verus wants contract terms visible; no effect on behaviour);
    `::indexmap::` paths point at the specification stub."""
    a, b = it["span"]
    if it["kind"] == "enum":
        txt = src.t(a, b)
        txt = re.sub(r"#\[derive\([^)]*\)\]\s*", "", txt)
        txt = re.sub(r"^(\s*///[^\n]*\n)*", "", txt)
    else:
        start = it["decl_start"]
        if "fields" in it and src.t(it["fields"]).startswith("{"):
            ftxt = src.t(it["fields"])
            ftxt = re.sub(r"(?m)^(\s*)(?!pub\b)(?!//)(\w+\s*:)", r"\1pub \2", ftxt.replace("pub(crate)", "pub"))
            txt = src.t(start, it["fields"][0]) + ftxt + src.t(it["fields"][1], b)
        else:
            txt = src.t(start, b)
    txt = txt.replace("pub(crate)", "pub")
    if not txt.lstrip().startswith("pub"):
        txt = "pub " + txt.lstrip()
    txt = re.sub(r"(?<![\w:])::indexmap::", "crate::indexmap::", txt)
    ders = [x["text"] for x in it.get("attrs", []) if x["path"] == "derive"]
    pre = "".join(d + "\n" for d in ders) if keep_derive else ""
    return pre + txt


def modname_for(key_name):
    return "f_" + re.sub(r"[^A-Za-z0-9_]", "_", key_name)


CORE_DEFAULTS = {
    # core::iter::Iterator::size_hint (library/core/src/iter/traits/iterator.rs): `(0, None)`
    "size_hint": ("fn size_hint(&self) -> (usize, Option<usize>)", "{ (0, None) }"),
}


def synth_fn(key, rec, impls, ctx, table, by_mod):
    mod, rest = key.rsplit("::", 2)[0], key.split("::")[-2:]
    tyname, fname = rest[0], rest[1].split("@")[0]
    trait = rest[1].split("@")[1]
    if fname not in CORE_DEFAULTS:
        die("overlay: no core default known for " + key)
    host = None
    for src, m, im in impls:
        if m == mod and re.sub(r"<.*", "", compact(im["self_ty_text"])) == tyname and compact(im.get("trait", "")) == trait:
            host = (src, im)
    if host is None:
        # the impl is not visible in the source text any more (e.g. generated by a macro): the functions of this type
        # that the overlay knows cannot be extracted -> undecided for the properties they carry, not for every property
        table[key] = {"key": key, "file": "", "span": [0, 0], "mode": "undecided", "vis": "", "sha256": "", "line": 0, "module": "",
                      "reason": "no `impl %s for %s` in the source text to host the synthesized default" % (trait, tyname),
                      "clauses": [], "all_tags": sorted(set(t for s_ in rec.sections for t in s_.tags)), "rewrites": [], "nopanic": [], "sites": {}}
        return
    src, im = host
    sig, body = CORE_DEFAULTS[fname]
    ret = rec.attrs.get("ret")
    if ret:
        sig = re.sub(r"-> (.*)$", lambda m: "-> (%s: %s)" % (ret, m.group(1)), sig)
    spec = ""
    for kind in ("requires", "ensures"):
        ss = [x for x in rec.sections if x.anchor == kind]
        if ss:
            spec += "\n" + kind + "\n"
            for x in ss:
                x.used = True
                txt = x.text.rstrip()
                if not txt.endswith(","):
                    txt += ","
                ctx.clauses[x.cid] = {"tags": x.tags, "fn": key, "anchor": x.anchor, "args": x.args, "origin": x.origin, "text": txt.strip()}
                spec += "/*<%s>*/\n%s\n/*</%s>*/\n" % (x.cid, txt, x.cid)
    gen = im.get("generics_text", "")
    ty = im["self_ty_text"]
    if "'_" in ty:
        ty = ty.replace("'_", "'a")
        gen = "<'a, " + gen[1:] if gen else "<'a>"
    text = "impl%s %s %s {\n/*<fn %s>*/\npub %s%s\n%s\n/*</fn %s>*/\n}" % (gen, ty, im.get("where_text", ""), key, sig, spec, body, key)
    sub = modname_for(fname + "_" + tyname)
    a, b = im["span"]
    table[key] = {"key": key, "file": src.rel, "span": [a, b], "mode": "contract", "vis": "pub", "sha256": "",
                  "line": src.data[:a].count(b"\n") + 1, "module": mod + "::" + sub, "gen_name": fname,
                  "rewrites": ["R9 default body of %s::%s synthesized from core (not overridden in %s)" % (trait, fname, src.rel)],
                  "sites": {}, "clauses": [x.cid for x in rec.sections if x.cid in ctx.clauses], "synthesized": True}
    by_mod.setdefault(mod, []).append((sub, text, False))


def binding_names(fn):
    """names bound by the parameters and the `let` statements of a function, in source order"""
    names = [i["name"] for i in fn.node["inputs"] if not i.get("receiver") and i.get("name")]
    for n in walk_tree(fn.node["tree"]):
        if n["k"] == "Local":
            pat = re.sub(r"\b(mut|ref)\b", " ", n.get("pat_text", "").split(":")[0])
            names += re.findall(r"\b[a-z_]\w*\b", pat)
    return names


LOCALS_FILE = os.path.join(VERIF, "contracts/locals.json")


def follow_renames(fn, rec, log):
    """R0: a local variable or parameter that was only *renamed* since the contracts were written (same number of bindings,
    same order) is renamed in the clause texts of that function as well (contracts/locals.json records the names the
    clauses were written against).  Anything else (bindings added, removed, reordered) changes nothing here."""
    if not os.path.exists(LOCALS_FILE):
        return
    global _LOCALS
    try:
        _LOCALS
    except NameError:
        _LOCALS = json.load(open(LOCALS_FILE))
    old = _LOCALS.get(fn.key)
    new = binding_names(fn)
    if old is None or old == new or len(old) != len(new):
        return
    ren = {}
    for a, b in zip(old, new):
        if a != b:
            if ren.get(a, b) != b:
                return
            ren[a] = b
    if set(ren.values()) & set(old) or len(set(ren.values())) != len(ren):
        return
    for sec in rec.sections:
        for a, b in ren.items():
            sec.text = re.sub(r"(?<![\w.])%s(?!\w)" % re.escape(a), b, sec.text)
    log.append("R0 renamed bindings followed in the clauses: " + ", ".join("%s->%s" % x for x in sorted(ren.items())))


def generate(outdir, stub=None, probe=False, nohints=None):
    stub = stub or {}
    nohints = nohints or set()
    os.makedirs(outdir, exist_ok=True)
    srcs = run_pqx()
    fns, structs, impls = collect(srcs)
    ovdir = os.path.join(VERIF, "contracts/overlay")
    ovs = sorted(os.path.join(ovdir, f) for f in os.listdir(ovdir) if f.endswith(".ov"))
    recs, mods_extra, order = parse_overlay(ovs)
    ctx = Ctx()
    ctx.probe = probe
    ctx.assoc = {}
    for src, mod, im in impls:
        tyname = re.sub(r"<.*", "", compact(im["self_ty_text"]))
        for sub in im["items"]:
            if sub["kind"] == "type":
                ctx.assoc.setdefault((mod, tyname), {})[sub["name"]] = sub["ty"]
    # R20 candidates: functions without overlay record that are private inherent / free helpers, straight-line
    # (no loop, no `return`, no `?`), not recursive, with a name nothing else in the crate or in the stubs uses
    stub_text = "".join(open(os.path.join(VERIF, "contracts", f)).read() for f in ("prelude.vrs", "indexmap_stub.vrs", "serde_stub.vrs"))
    COMMON = set("new len push pop insert get remove clear iter next map and_then unwrap clone eq cmp from into default drop swap replace extend reserve capacity contains".split())
    ctx.inlinable = {}
    names_all = [f.name for f in fns]
    for fn in fns:
        if fn.key in recs or (fn.impl is not None and fn.impl.get("trait")) or fn.node.get("vis", "") == "pub":
            continue
        kinds = set(x["k"] for x in walk_tree(fn.node["tree"]))
        if kinds & {"While", "ForLoop", "Loop", "Return", "Try"}:
            continue
        nm = fn.name
        if names_all.count(nm) != 1 or nm in COMMON or re.search(r"\bfn %s\b" % re.escape(nm), stub_text):
            continue
        calls = [x["method"] for x in walk_tree(fn.node["tree"]) if x["k"] == "MethodCall"] + [compact(x["func_text"]).split("::")[-1] for x in walk_tree(fn.node["tree"]) if x["k"] == "Call"]
        if nm in calls:
            continue
        ctx.inlinable[nm] = fn
    inline_stats = {}
    table = {}
    by_mod = {}
    missing = []
    fnkeys = set()
    for fn in fns:
        if fn.key in fnkeys:
            die("ambiguous function key " + fn.key)
        fnkeys.add(fn.key)
        rec = recs.get(fn.key)
        if rec is None:
            missing.append(fn.key)
            if os.environ.get("PQ_ALLOW_MISSING"):
                continue
            # a function the overlay does not know (new in the source): verified without a contract, for its
            # built-in obligations only (C04); reported in map.json / evidence as not under contract
            rec = FnRec(fn.key, "(no overlay record)")
            rec.attrs["mode"] = "plain"
            # type invariants declared in the overlay apply to functions it does not know: required on entry, and for
            # `&mut self` re-established on exit
            # (only for functions callable from outside: `pub` or a trait method; a private helper may be meant for
            #  intermediate states and simply has no contract -- its failures are "needs contract", see props.report)
            if fn.impl is not None and (fn.node.get("vis", "") == "pub" or fn.impl.get("trait")):
                tkey = fn.key.rsplit("::", 1)[0].replace("&mut ", "").replace("&", "")
                recvs = [i for i in fn.node["inputs"] if i["receiver"]]
                for mk, lines in mods_extra.items():
                    if not mk.startswith("__typeinv__"):
                        continue
                    tname, tags = mk[len("__typeinv__"):].split("|")
                    if tname != tkey or not recvs:
                        continue
                    txt = "\n".join(lines).strip()
                    tl = [t.strip() for t in tags.split(",") if t.strip()]
                    rcv = recvs[0]
                    is_mut_ref = rcv["ref"] and rcv["mut"]
                    rec.sections.append(Section("requires", [], tl, fn.key + "#typeinv.pre", txt.replace("SELF", "old(self)" if is_mut_ref else "self") + "\n", "typeinv"))
                    if is_mut_ref:
                        rec.sections.append(Section("ensures", [], tl, fn.key + "#typeinv.post", txt.replace("SELF", "final(self)") + "\n", "typeinv"))
        rec.used = True
        r0log = []
        follow_renames(fn, rec, r0log)
        mode = rec.attrs.get("mode", "contract")
        a, b = fn.node["span"]
        entry = {"key": fn.key, "file": fn.src.rel, "span": [fn.node["fn_token"][0], b], "mode": mode,
                 "vis": fn.node.get("vis", ""), "sha256": hashlib.sha256(fn.src.data[a:b]).hexdigest(),
                 "line": fn.src.data[:fn.node["fn_token"][0]].count(b"\n") + 1}
        table[fn.key] = entry
        # names this body calls (methods and path tails): lets the verdict see which functions lean on a function without contract
        entry["callees"] = sorted(set([x["method"] for x in walk_tree(fn.node["tree"]) if x["k"] == "MethodCall"]
                                      + [compact(x["func_text"]).split("::")[-1] for x in walk_tree(fn.node["tree"]) if x["k"] == "Call"]
                                      + [compact(x.get("text", "")).split("::")[-1] for x in walk_tree(fn.node["tree"]) if x["k"] == "Path" and "::" in x.get("text", "")]))
        entry["trait_impl"] = bool(fn.impl is not None and fn.impl.get("trait"))
        if mode == "skip":
            entry["reason"] = rec.attrs.get("reason", "")
            if not entry["reason"]:
                die("overlay: skip without reason: " + fn.key)
            continue
        r = Renderer(fn, rec, ctx)
        try:
            if fn.key in stub:
                raise Undecided("does not compile in the verifier's dialect: " + stub[fn.key])
            text = r.render_fn()
            # a proof hint / loop clause whose structural anchor no longer exists in the function is dropped (and
            # recorded): the function is still verified against its contract, and whatever then no longer goes through
            # is reported as a failed obligation
            lost = [s for s in rec.sections if not s.used]
            if lost:
                entry["lost_anchors"] = ["@%s %s (%s)" % (s.anchor, " ".join(s.args), s.origin) for s in lost]
            if lost and fn.key in nohints:
                # the remaining hints do not compile without the lost ones (ghost variables): keep only the contract
                # proper and the loop clauses
                entry["lost_anchors"].append("(all other proof hints of this function dropped as well)")
                for k in [c for c, v in ctx.clauses.items() if v["fn"] == fn.key]:
                    del ctx.clauses[k]
                keep = FnRec(rec.key, rec.origin)
                keep.attrs, keep.rw = rec.attrs, rec.rw
                keep.sections = [x for x in rec.sections if x.anchor in ("requires", "ensures", "decreases", "attr")
                                 or (x.anchor == "loop" and len(x.args) > 1 and x.args[1] in ("invariant", "invariant_except_break", "ensures", "decreases", "iter_name", "attr") and x.used)]
                for x in keep.sections:
                    x.used = False
                rec_for_render = keep
                r = Renderer(fn, keep, ctx)
                text = r.render_fn()
                rec = keep
        except Undecided as e:
            # the function cannot be brought into the verifier's input as it stands: keep its contract for the
            # callers (assumed), do not verify its body, and make every property it carries UNDECIDED
            entry["mode"] = mode = "undecided"
            entry["reason"] = str(e)
            for k in [c for c, v in ctx.clauses.items() if v["fn"] == fn.key]:
                del ctx.clauses[k]
            r = Renderer(fn, rec, ctx)
            text = r.render_fn(stub_body=True)
        if mode == "assumed":
            entry["reason"] = rec.attrs.get("reason", "")
            text = text.replace("*/\n", "*/\n#[verifier::external_body]\n", 1)
        entry["rewrites"] = r0log + r.log
        inl = getattr(r, "inlined", [])
        if ctx.inlinable:
            mentions = [x["method"] for x in walk_tree(fn.node["tree"]) if x["k"] == "MethodCall"] \
                + [compact(x["func_text"]) for x in walk_tree(fn.node["tree"]) if x["k"] == "Call" and "::" not in x["func_text"]] \
                + [compact(x.get("text", "")).split("::")[-1] for x in walk_tree(fn.node["tree"]) if x["k"] == "Path" and "::" in x.get("text", "")]
            done = [nm for nm in set(inl) if mentions.count(nm) == inl.count(nm)]
            entry["callees"] = [c for c in entry.get("callees", []) if c not in done]
            entry["inlined"] = sorted(set(inl))
            for nm in ctx.inlinable:
                tot = inline_stats.setdefault(nm, [0, 0])
                tot[0] += mentions.count(nm)
                tot[1] += inl.count(nm)
        entry["nopanic"] = [t.strip() for t in rec.attrs.get("nopanic", "").split(",") if t.strip()]
        entry["sites"] = count_sites(fn.node["tree"])
        entry["gen_name"] = rec.attrs.get("name", fn.name)
        entry["clauses"] = [s.cid for s in rec.sections if s.cid in ctx.clauses]
        entry["all_tags"] = sorted(set(t for s in rec.sections for t in s.tags) | set(entry["nopanic"]))
        # impl header
        if fn.impl is not None:
            im = fn.impl
            gen = im.get("generics_text", "")
            ty = fn.src.t(im["self_ref"]["elem"]) if "self_ref" in im else im["self_ty_text"]
            if r.moved_generics:
                keep = [g.strip() for g in split_top(gen[1:-1]) if g.strip() not in r.moved_generics]
                gen = "<" + ", ".join(keep) + ">"
                im = dict(im, where_text=("where " + ", ".join(r.kept_where)) if r.kept_where else "")
            if "'_" in ty:
                # anonymous impl lifetime -> named (same meaning); lets `Self::Item` of the sibling impl resolve
                ty = ty.replace("'_", "'a")
                gen = "<'a, " + gen[1:] if gen else "<'a>"
                r.log.append("R10 anonymous impl lifetime '_ -> 'a")
            where = im.get("where_text", "")
            extra = rec.attrs.get("impl_where", "")
            if extra:
                where = (where.rstrip().rstrip(",") + ", " + extra) if where else "where " + extra
            text = "impl%s %s %s {\n%s\n}" % (gen, ty, where, text)
        sub = modname_for(rec.attrs.get("name", fn.name) + ("" if fn.impl is None else "_" + re.sub(r".*::", "", fn.key.split("@")[0].rsplit("::", 1)[0])))
        n = 0
        base = sub
        while (fn.mod, sub) in {(m, s) for m, lst in by_mod.items() for s, _, _ in lst}:
            n += 1
            sub = "%s_%d" % (base, n)
        entry["module"] = fn.mod + "::" + sub
        by_mod.setdefault(fn.mod, []).append((sub, text, fn.impl is None))
    # a helper whose every mention was expanded in place (R20) is verified in context at each call site; what its
    # context-free copy cannot prove is of no consequence
    for nm, (tot, done) in inline_stats.items():
        if tot > 0 and tot == done:
            table[ctx.inlinable[nm].key]["expanded_everywhere"] = True
    # R9: trait methods that are not overridden but under contract: the default body from core is what runs
    for key, rec in recs.items():
        if rec.attrs.get("synth") and key not in fnkeys:
            rec.used = True
            synth_fn(key, rec, impls, ctx, table, by_mod)
    if missing and os.environ.get("PQ_ALLOW_MISSING"):
        print("gen: %d functions without overlay record (bring-up mode)" % len(missing), file=sys.stderr)
    elif missing and os.environ.get("PQ_STRICT"):
        die("functions without overlay record (neither under contract nor listed as unverified): " + ", ".join(missing))
    for k, rec in recs.items():
        if not rec.used and rec.attrs.get("optional"):
            continue    # contract kept ready for a function the source may introduce (overrides of std defaults)
        if not rec.used:
            # a function the overlay has a contract for is no longer in the source text (removed, renamed, or now
            # generated by a macro): nothing can be extracted for it -> undecided for the properties it carries.
            # Functions that call it do not compile in the generated input and become undecided one by one.
            table[k] = {"key": k, "file": "", "span": [0, 0], "mode": "undecided", "vis": "", "sha256": "", "line": 0, "module": "",
                        "reason": "the function is no longer in the source text (removed, renamed or macro-generated)",
                        "clauses": [], "all_tags": sorted(set(t for s_ in rec.sections for t in s_.tags) | set(x.strip() for x in rec.attrs.get("nopanic", "").split(",") if x.strip())),
                        "rewrites": [], "nopanic": [], "sites": {}}

    # ---- assemble
    out = []
    for f in ("prelude.vrs", "indexmap_stub.vrs", "serde_stub.vrs", "specs.vrs"):
        out.append("// ===== contracts/%s =====\n" % f + open(os.path.join(VERIF, "contracts", f)).read())
    out.append("verus! {\n")
    struct_by_mod = {}
    for src, mod, it in structs:
        struct_by_mod.setdefault(mod, []).append(struct_text(src, it, it["name"] in ("Index", "Position")))
    tree = {}
    allmods = [m for _, m in FILES] + list(by_mod) + list(struct_by_mod)
    for mod in allmods:
        node = tree
        for part in mod.split("::"):
            node = node.setdefault(part, {})

    def emit(path, node, depth):
        mod = "::".join(path)
        out.append("pub mod %s {\n#[allow(unused_imports)] use super::*;\n" % path[-1])
        if depth > 0:
            out.append("#[allow(unused_imports)] use crate::*;\n")
        for s in struct_by_mod.get(mod, []):
            out.append(s + "\n")
        for line in mods_extra.get(mod, []):
            out.append(line + "\n")
        for sub, text, free in by_mod.get(mod, []):
            out.append("pub mod %s {\n#[allow(unused_imports)] use super::*;\n%s\n}\n" % (sub, text))
            if free:
                out.append("#[allow(unused_imports)] pub use %s::*;\n" % sub)
        for name, child in node.items():
            emit(path + [name], child, depth + 1)
        out.append("} // mod %s\n" % path[-1])
    for name, child in tree.items():
        emit([name], child, 0)
    for mod in mods_extra:
        if mod.startswith("__typeinv__"):
            continue
        if mod not in allmods and mod != "root":
            die("overlay: module text for unknown module " + mod)
    for line in mods_extra.get("root", []):
        out.append(line + "\n")
    out.append("} // verus!\nfn main() {}\n")
    text = "".join(out)
    path = os.path.join(outdir, "pq_verif.rs")
    open(path, "w").write(text)

    # ---- marker spans (byte offsets in the generated file)
    data = text.encode()
    spans = []
    for m in re.finditer(rb"/\*<(fn )?([^/](?:(?!>\*/).)*)>\*/", data):
        cid = m.group(2).decode()
        close = b"/*</%s%s>*/" % (m.group(1) or b"", m.group(2))
        e = data.find(close, m.end())
        if e < 0:
            die("internal: unbalanced marker " + cid)
        spans.append({"id": cid, "fn": bool(m.group(1)), "start": m.start(), "end": e + len(close)})
    json.dump({"functions": table, "clauses": ctx.clauses, "spans": spans, "without_record": missing, "probes": ctx.probes,
               "repo_head": subprocess.run(["git", "-C", REPO, "rev-parse", "HEAD"], capture_output=True, text=True).stdout.strip()},
              open(os.path.join(outdir, "map.json"), "w"), indent=1)
    return path


if __name__ == "__main__":
    outdir = sys.argv[1] if len(sys.argv) > 1 else os.path.join(VERIF, "gen")
    try:
        p = generate(outdir)
        print(p)
    except Undecided as e:
        print("UNDECIDED (generator): %s" % e, file=sys.stderr)
        sys.exit(2)
