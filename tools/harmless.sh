#!/bin/bash
# false-alarm self-test: behaviour-preserving edits of /repo (scratch worktree each); every check must stay at exit 0.
# usage: tools/harmless.sh [case...]
cd /verif
# the stand-in search only matters for "violation with a real failing input"; HARMLESS_CEX=1 switches it on here
[ -z "$HARMLESS_CEX" ] && export PQ_NO_CEX=1
declare -A CASES
CASES[h1_ties_ge]="sed -i 's/if childp > largestp {/if childp >= largestp {/' src/priority_queue/mod.rs"
CASES[h2_len_vs_size]="sed -i '0,/match self.len() {/s//match self.store.size {/' src/priority_queue/mod.rs"
CASES[h3_rename_local]="sed -i 's/\\blargest\\b/biggest/g' src/priority_queue/mod.rs"
CASES[h4_find_min_if]="perl -0pi -e 's/match self.len\\(\\) \\{\\n\\s*0 => None,\\n\\s*_ => Some\\(Position\\(0\\)\\),\\n\\s*\\}/if self.is_empty() { None } else { Some(Position(0)) }/' src/double_priority_queue/mod.rs"
CASES[h5_clear_reorder]="perl -0pi -e 's/self.heap.clear\\(\\);\\n(\\s*)self.qp.clear\\(\\);\\n(\\s*)self.map.clear\\(\\);/self.qp.clear();\\n\$1self.heap.clear();\\n\$2self.map.clear();/' src/store.rs"
CASES[h6_ne_zero]="sed -i 's/while if position.0 > 0 {/while if position.0 != 0 {/' src/priority_queue/mod.rs"
CASES[h7_comment_and_blank]="sed -i 's/self.store.swap(i, largest);/\\/\\/ exchange with the larger child\\n            self.store.swap(i, largest);\\n/' src/priority_queue/mod.rs"
CASES[h8_size_dec_first]="perl -0pi -e 's/let head: Index = self.heap.swap_remove\\(position.0\\);\\n(\\s*)self.size -= 1;/self.size -= 1;\\n\$1let head: Index = self.heap.swap_remove(position.0);/' src/store.rs"
# further cases live in tools/harmless/<name>.py (run inside the scratch worktree)
for f in tools/harmless/*.py; do n=$(basename $f .py); CASES[$n]="python3 /verif/$f"; done
# ... and behaviour-preserving refactorings written by independent sub-agents, as patches
for f in tools/harmless/*.diff; do [ -e "$f" ] || continue; n=$(basename $f .diff); CASES[$n]="git apply /verif/$f"; done
sel=("$@"); [ ${#sel[@]} -eq 0 ] && sel=("${!CASES[@]}")
for c in "${sel[@]}"; do
  W=/tmp/pq-harmless.$c; git -C /repo worktree add -q --detach $W HEAD || continue
  (cd $W && eval "${CASES[$c]}")
  if git -C $W diff --quiet; then echo "$c: EDIT DID NOT APPLY"; git -C /repo worktree remove --force $W; continue; fi
  t=$(cd $W && CARGO_TARGET_DIR=/tmp/pq-harmless-target cargo test --offline --features serde 2>&1 | grep -c "test result: ok")
  out=""
  for id in $(python3 -c "import json;print(' '.join(c['property_id'] for c in json.load(open('MANIFEST.json'))['checks']))"); do
    ( PQ_REPO=$W PQ_EVIDENCE_DIR=$W/_ev PQ_REPLAY_DIR=$W/_rp PQ_GEN_TAG=_hl_$c ./check $id > $W/_$id.out 2>&1; echo "$id=$?" > $W/_$id.rc; rm -rf gen/${id}_hl_$c ) &
    while [ $(jobs -r | wc -l) -ge 6 ]; do sleep 0.3; done
  done; wait
  bad=$(cat $W/_*.rc | grep -v "=0" | tr '\n' ' ')
  echo "$c: suite ok-groups=$t; checks not at exit 0: ${bad:-none}"
  for f in $W/_*.rc; do id=$(basename $f .rc); if ! grep -q "=0" $f; then grep -E "VIOLATION|UNDECIDED|failed obl" $W/${id}.out | head -3 | cut -c1-200; fi; done
  git -C /repo worktree remove --force $W
done
rm -rf /tmp/pq-harmless-target
