#!/usr/bin/env python3
"""keepseed.py <id-name> <srcdir> <property> <caught_by comma list or -> "<needs>" : store a confirmed seeded change under /verif/seeded/"""
import json, os, shutil, sys
name, src, prop, caught, needs = sys.argv[1:6]
d = os.path.join("/verif/seeded", name)
os.makedirs(d, exist_ok=True)
for f in ("patch.diff", "seed_demo.rs", "notes.md"):
    if os.path.exists(os.path.join(src, f)):
        shutil.copy(os.path.join(src, f), os.path.join(d, f))
meta = {"property": prop, "needs_to_manifest": needs,
        "confirmed": "tools/seedtest.sh: scratch worktree of /repo HEAD; demo passes without the change, fails with it; cargo test --offline --features serde green with the change",
        "caught_by_checks": [c for c in caught.split(",") if c and c != "-"],
        "origin": "independent sub-agent given only the property text and a scratch worktree"}
json.dump(meta, open(os.path.join(d, "meta.json"), "w"), indent=1)
print(d, meta["caught_by_checks"])
