import json,sys,os
pid=sys.argv[1]
for l in open('/verif/properties.jsonl'):
    p=json.loads(l)
    if p['id']==pid: break
prev=[]
for d in sorted(os.listdir('/verif/seeded')):
    m=json.load(open('/verif/seeded/%s/meta.json'%d))
    if m['property']==pid:
        prev.append(d.split('_',1)[1].replace('_',' ')+' (needs: '+m['needs_to_manifest']+')')
tag=sys.argv[2] if len(sys.argv)>2 else 'seed4'
wt='/tmp/%s_%s/wt'%(tag,pid)
out='/tmp/%s_%s/out'%(tag,pid)
print(f"""You are helping to test a verification effort for the Rust crate garro95/priority-queue (an indexed max-heap `PriorityQueue` and a min-max `DoublePriorityQueue` over IndexMap). You get a private git worktree of the crate at {wt} (a normal checkout; build with `cargo build --offline`, test with `cargo test --offline` and `cargo test --offline --features serde`; there is NO network). Work ONLY inside {wt} and {out}. Do not read or touch /repo or /verif or any other directory under /tmp.

The crate is supposed to satisfy this property:

  id: {p['id']}
  title: {p['title']}
  statement: {p['statement']}
  must hold for: {p['quantifier']['text']}

Your task: write ONE realistic change to the crate's source (a plausible bug a maintainer could introduce during a refactoring or an optimisation) that BREAKS this property, while the crate still compiles and the ENTIRE existing test suite still passes (both `cargo test --offline` and `cargo test --offline --features serde` must be green with your change). Somebody else already wrote this change for the same property: "{'; '.join(prev)}". Yours must be DIFFERENT: a different function and a different mechanism, and as subtle as you can make it — ideally it needs a specific multi-step sequence of operations, a particular size or heap shape, ties between priorities, an unusual but legal input, a panic or a leak at a particular point, or two cooperating edits that each look harmless alone. Think about the less obvious parts of the crate (the min-max heap's sift-up/sift-down corner cases, removal of elements in special positions, interactions between the slot table and the heap table, iterator adaptors, conversions between the two queue kinds, capacity functions, serde) as far as they matter for THIS property. Do not add new public API, do not change function signatures, do not add dependencies, keep it small (a few lines).

Also write a demonstration: a small integration test file (put it at {wt}/tests/seed_demo.rs; it may use only the crate's public API and std, plus serde_json/serde_test if the property is about serde) that FAILS (assertion failure, panic, or for memory-safety properties a debug-assertion abort) with your change and PASSES on the unmodified crate. Verify both claims yourself: run the demo with the change applied, then `git diff -- src/ > /tmp/{tag}_{pid}_my.diff; git apply -R /tmp/{tag}_{pid}_my.diff` (keep the demo), run the demo again to see it pass, and re-apply with `git apply /tmp/{tag}_{pid}_my.diff` (do NOT use git stash: the stash is shared between worktrees). Move the demo aside when you run the existing suites.

Deliver in {out}/ (create it):
  - patch.diff : output of `git diff -- src/` in the worktree (source change only, WITHOUT the demo test)
  - seed_demo.rs : the demonstration test file
  - notes.md : 5-15 lines: what the change is, why the existing tests do not notice it, what is needed for it to manifest, and the exact commands you ran with their outcomes.
When done, reply with a 5-line summary. If after honest effort you cannot find a change that survives the existing tests, say so in notes.md and deliver your best attempt with an explanation.""")
