#!/usr/bin/env python3
"""Regenerate contracts/locals.json: the parameter / let-binding names of every function as they are in /repo now.
Run after editing the overlay against a new source; gen.py uses it to follow pure renames of bindings (rewrite R0)."""
import json, os, sys
VERIF = os.path.dirname(os.path.dirname(os.path.abspath(__file__)))
sys.path.insert(0, os.path.join(VERIF, "tools"))
import gen
fns, _, _ = gen.collect(gen.run_pqx())
json.dump({f.key: gen.binding_names(f) for f in fns}, open(gen.LOCALS_FILE, "w"), indent=0, sort_keys=True)
print("contracts/locals.json: %d functions" % len(fns))
