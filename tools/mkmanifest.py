#!/usr/bin/env python3
"""Regenerate /verif/MANIFEST.json from the table below (kept in one place so that the claims,
the level notes and the not_applicable list stay in step with what the overlay really carries)."""
import json
import os
import subprocess

VERIF = os.path.dirname(os.path.dirname(os.path.abspath(__file__)))

COMMON_NOTE = ("Trusted base (listed mechanically in every evidence file): contracts of indexmap::IndexMap "
               "(contracts/indexmap_stub.vrs), of core/alloc functions (vstd + contracts/prelude.vrs), of serde's "
               "driver traits (contracts/serde_stub.vrs); hypotheses of the property as requires/axioms (total Ord = "
               "ord_laws, consistent Hash/Eq = axiom_eqv_*); 64-bit usize, Vec<usize> length <= 2^60-1; the declared "
               "rewrites of tools/gen.py; trait-impl methods verified as inherent methods. ")

CHECKS = {
    "C01": ("max-heap invariant heap_ordered (= forall p. ord_at(p)) is established by every constructor / bulk operation and preserved by every "
            "&mut operation of PriorityQueue; lemma_root_is_max turns it into 'peek/pop address a maximum'; pop/pop_if/peek_mut address heap[0], the element peek reports. "
            "Verus discharges the postconditions and loop invariants of heapify, bubble_up, up_heapify, heap_build, push, pop, pop_if, change_priority(_by), remove, retain(_mut), append, extend, From/FromIterator for all sizes, shapes and priority assignments.",
            "4 C01", ""),
    "C02": ("for DoublePriorityQueue: the min-max invariant minmax_ordered (every node ordered against its children and grandchildren) is established by every constructor / bulk operation and preserved by every &mut operation; Verus discharges the loop invariants of heapify_min / heapify_max (trickle-down with the bridge to the grandparent), bubble_up / bubble_up_min / bubble_up_max (climb), up_heapify, heap_build and the posts of push, pop_min, pop_max, pop_*_if, change_priority(_by), push_increase/decrease, remove, retain(_mut), append, extend, conversions, IterMut::drop, deserialize for all sizes and shapes; lemma_root_is_min and lemma_max_at_1_or_2 turn the invariant into 'peek_min/pop_min address a minimum, peek_max/pop_max a maximum'; find_max's three cases are branches of its contract.",
            "4 C02", "the two trickle-down loop bodies are the most expensive queries (about 100M of 360M rlimit units each); "),
    "C03": ("every public method of both queues has a postcondition over the map view (Seq<(I,P)> in slot order) and the size: exact return values, exact new contents, absent item => nothing changes; Store::remove / swap_remove / change_priority carry whole-view frames.",
            "4 C03", ""),
    "C04": ("every function under contract is verified free of panics, overflow and out-of-bounds accesses from the representation invariant wf alone (order is never needed for safety), and every &mut function re-establishes wf; "
            "the ~40 unsafe get_unchecked(_mut) sites are verified as written against the slice-bounds precondition.",
            "4 C04", "documented capacity-overflow panics (reserve, with_capacity) are explicit preconditions; "),
    "C05": ("(1) Verus: ghost step counters in the six sift loops with the invariant steps <= floor(log2 n) (two levels per step in the min-max heap) and decreases clauses; (2) a generated static derivation (tools/cost.py), one obligation per function with a declared class: comparison sites (binary comparisons on priorities, cmp, k-1 for a selection among k candidates, std's sorting / searching algorithms) per function plus callees, loops multiplying by log (only where a discharged step-counter clause exists) or n, Floyd's construction declared linear: derived class <= declared class (zero for peeks and lookups, 1 for peek_max, log for single-element operations, n for bulk operations).",
            "4 C05", "part (2) is a generated obligation over the syntax tree, not a Verus proof of comparison counts (those are not expressible on the real signatures); the sum of sift heights in heap_build being O(n) is assumed; site recognition is syntactic; "),
    "C06": ("loop invariants of into_sorted_vec, into_ascending_sorted_vec and into_descending_sorted_vec over a ghost sequence of popped pairs: one entry per stored element, every entry a stored pair, every stored pair an entry (coverage), sorted, the last popped bounds what remains; IntoSortedIter::next / next_back posts inherited from pop / pop_min / pop_max, exact len / size_hint.",
            "4 C06", ""),
    "C07": ("posts and loop invariants of Store::from(Vec), from_iter, extend, append and the queue-level wrappers: wf, identity tables, other queue emptied, stored item kept under both extend strategies, heap order re-established; "
            "size_hint is an unconstrained stub, so every obligation holds for every hint; capacity arguments derived from hints must satisfy the no-panic precondition of reserve/with_capacity.",
            "4 C07", "legal lower bound + current length <= 2^60-1 is an explicit assume (listed); "),
    "C08": ("retain: one answer per stored entry, answer j is the predicate's on entry j, exactly the accepted entries stay unchanged (post.answers, Store::retain's adapter body verified through R21); retain_mut: the predicate is called once on every stored entry in slot order and exactly the entries it accepted stay, as it left them (post.answers over f.ensures, through the IterMut2 prophecy and R19 with the recorded answers), order re-established; IterMut::next (slot handed out = cursor slot, prophecy of what is written), IterMut::drop (order); swap_remove_if and the pop_if family: returned pair = slot as the predicate left it, removed iff the predicate returned true (pop_if_decided), kept with the written priority otherwise, order restored; change_priority_by stores what the setter left.",
            "4 C08", "the FnMut(&I,&P) bound of retain is verified as Fn(&I,&P) (R21, so that the one-line adapter of Store::retain is verified instead of assumed); FnMut / FnOnce closures are relations between arguments and result in Verus (a closure's own state is not tracked); IterMut2 / retain2-with-recorded-answers stub contracts (audited); "),
    "C09": ("cursor contracts of IterMut::next / next_back / len / size_hint: the slot handed out is the cursor slot and the cursor strictly advances, so slots are pairwise distinct; exact remaining length.",
            "4 C09", "raw-pointer reborrow (R6 __launder) trusted as value identity; "),
    "C10": ("wf is a precondition wherever a priority is fetched for comparison or user code is called and an invariant of every sift loop; every function is safe from wf alone. Verus discharges these, including wf at every call of a user closure (crash-point assertions) and the leak-safety posts of IterMut::new / iter_mut / drain; a generated audit obligation per function forbids handing a user-supplied callable or iterator to an IndexMap method (user code then only runs at call sites the verifier sees). The step to 'safe after a caught panic' is a stated meta-argument.",
            "4 C10", "no unwinding semantics in Verus (meta-argument); "),
    "C11": ("posts of push_increase / push_decrease for both queues: absent => inserted, strictly better => replaced and old returned, otherwise untouched as a whole and offered priority returned.",
            "4 C11", ""),
    "C12": ("the C03 posts name the *stored* key in every 'present' case; get_mut / peek_*_mut / IterMut posts address the slot's key with a prophecy of the written value; swap / swap_remove / remove / heapify have map frames.",
            "4 C12", "Borrow<Q> agreement is std's law (eqv through &Q); "),
    "C13": ("Iter / IntoIter / Drain delegate next / next_back / len to the stub iterators (ghost view = remaining entries); every type declaring ExactSizeIterator must have size_hint == (remaining, Some(remaining)), the core default body being synthesized (R9) where not overridden; optional contracts (what std's default does) for overrides of nth / nth_back / count / last that the source may introduce; the source queue of append is emptied.",
            "4 C13", "std adaptors over these iterators are trusted; "),
    "C14": ("eq of Store / PriorityQueue / DoublePriorityQueue returns exactly IndexMap's order-insensitive map equality (map_eq); Clone is #[derive]d, so there is no function body to put a contract on: generated structural obligations (the three structs derive Clone, no manual impl Clone, no field type shares state) stand in, and a hand-written Clone makes the check undecided with the bounded history search (clone / clone_from against the source) deciding. 'Behaves identically' is a relation between two runs: every result is specified over a view without capacities, plus one generated obligation per function outside the capacity API (no capacity read); not met => undecided, the search compares twins that differ in capacity only.",
            "4 C14", "derive(Clone) semantics assumed; reflexivity / symmetry / transitivity are IndexMap's; "),
    "C15": ("visit_seq against an arbitrary SeqAccess: Ok(store) => wf and identity tables, no panic; serialize emits the map entries in slot order with the size as length hint (ghost trace); queue-level deserialize re-establishes order.",
            "4 C15", "serde driver (deserialize_seq -> visit_seq) assumed; "),
    "C16": ("posts of Store::drain / clear and the queue wrappers: tables and size cleared before the map's drain is handed out, whose stub contract leaves the map empty however the iterator is consumed; result is the abstract state of a fresh queue.",
            "4 C16", "indexmap drain leak behaviour assumed; "),
    "C17": ("frame posts of with_capacity*, reserve, reserve_exact, try_reserve, try_reserve_exact, shrink_to_fit (map view, both tables, size unchanged) plus the capacity relation; try_reserve has no panic obligation left; TryReserveError conversions; one generated obligation per function outside the capacity API: no capacity is read (a later operation cannot depend on one); not met => undecided, the bounded search compares twins that differ in capacity only.",
            "4 C17", ""),
    "C18": ("every obligation is discharged with H an uninterpreted type parameter that is only forwarded to IndexMap::with_capacity_and_hasher; one generated audit obligation per function: no call into the hasher (BuildHasher / Hasher methods, .hasher(), hash_one) -- all hashing is IndexMap's; constructor posts; the append model does not depend on capacities.",
            "4 C18", "stub contracts do not mention the hasher; "),
}


def main():
    props = [json.loads(l) for l in open(os.path.join(VERIF, "properties.jsonl"))]
    na_path = os.path.join(VERIF, "tools/not_applicable.json")
    na = json.load(open(na_path)) if os.path.exists(na_path) else {}
    repo_commits = subprocess.run(["git", "-C", "/repo", "log", "--format=%H %s", "716b03f..HEAD"], capture_output=True, text=True).stdout.strip().split("\n")
    checks = []
    for p in props:
        pid = p["id"]
        if pid in na or pid not in CHECKS:
            continue
        text, ref, note = CHECKS[pid]
        checks.append({
            "property_id": pid,
            "quick_cmd": "./check %s --tier quick" % pid,
            "thorough_cmd": "./check %s --tier thorough" % pid,
            "evidence_file": "/verif/evidence/%s.json" % pid,
            "replay_cmd_template": "./check %s --replay {path}" % pid,
            "engine": "verus-contracts",
            "level_claimed": {"category": "proof", "text": text, "design_ref": "DESIGN.md " + ref},
            "level_note": note + COMMON_NOTE,
            "technique": "contract-based deductive verification: Verus discharges requires/ensures/loop invariants spliced into the function bodies extracted from /repo on every run; after a failed obligation (never on a passing tree) a model-based random-history search on the real crate (harness/cex) looks for a concrete failing input to put into the replay file",
        })
    m = {
        "version": 1,
        "setup_cmd": "cd tools/pqx && CARGO_NET_OFFLINE=true cargo build --release --offline",
        "hooks": {
            "guard": "priority_queue_verif",
            "enable": "none needed: the extractor reads /repo's source text; no hook is compiled into the crate (guard name reserved, unused)",
            "baseline_off_cmd": "cd /repo && cargo test --workspace --no-fail-fast --offline",
            "source_commits": [c.split()[0] for c in repo_commits if c.strip()],
            "add_only": True,
        },
        "engines": [{"name": "verus-contracts", "path": "check", "serves_properties": [c["property_id"] for c in checks],
                     "kind_free_text": "tools/pqx (syn index) + tools/gen.py (extract real function text, declared rewrites, splice contracts/overlay/*.ov) + Verus 0.2026.09.13"}],
        "checks": checks,
        "notes": "hooks.source_commits lists the fix: commits made to /repo (no hook commits exist). See DESIGN.md and known_findings.txt.",
        "not_applicable": [{"property_id": k, "reason": v} for k, v in na.items()],
    }
    json.dump(m, open(os.path.join(VERIF, "MANIFEST.json"), "w"), indent=1)
    print("MANIFEST.json: %d checks, %d not_applicable" % (len(checks), len(na)))


if __name__ == "__main__":
    main()
