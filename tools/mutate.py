#!/usr/bin/env python3
"""mutate.py -- systematic search for changes the contracts do not see.

For a sample of syntactic mutants of /repo's function bodies (relational / arithmetic / boolean operator swaps, deleted
re-sift calls, off-by-one constants), each in a scratch worktree:
  1. `cargo test --offline --features serde` -- a mutant the crate's own tests kill is of no interest here;
  2. the whole extracted file is verified (all functions, all clauses, cost and audit obligations): any failed or
     undecided obligation = the machinery notices the change;
  3. a mutant that passes both is given to the history search (harness/cex, `any`): if that finds a failing history the
     mutant changes behaviour and *nothing deductive noticed*: a GAP, listed for strengthening; otherwise it is
     (probably) an equivalent mutant.
usage: tools/mutate.py <n-mutants> <seed> [jobs]      (results: notes/mutation_results.txt)
"""
import json, os, random, re, shutil, subprocess, sys, tempfile
from concurrent.futures import ThreadPoolExecutor
VERIF = os.path.dirname(os.path.dirname(os.path.abspath(__file__)))
sys.path.insert(0, os.path.join(VERIF, "tools"))
import gen

OPS = [
    (r" < ", " <= "), (r" <= ", " < "), (r" > ", " >= "), (r" >= ", " > "), (r" == ", " != "), (r" != ", " == "),
    (r" \+ 1\b", " + 2"), (r" - 1\b", " - 2"), (r" \+= 1;", " += 2;"), (r" -= 1;", " -= 2;"), (r" && ", " || "), (r" \|\| ", " && "),
    (r"Position\(0\)", "Position(1)"), (r"\.0 / 2\b", ".0 / 4"), (r" \* 2\b", " * 3"),
    (r"\bif !", "if "), (r"\btrue\b", "false"), (r"\bfalse\b", "true"),
    (r"(?m)^\s*self\.(heapify|up_heapify|heap_build|bubble_up|heapify_min|heapify_max)\([^;]*\);\n", ""),
    (r"(?m)^\s*(self\.)?(store\.)?(size|pos|pos_back) [-+]= 1;\n", ""),
    (r"\.min\(", ".max("), (r"saturating_sub", "saturating_add"), (r"swap_remove\(", "remove("),
    # second batch: exchanged helpers and directions
    (r"\bleft\(", "right("), (r"\bright\(", "left("), (r"\bself\.heapify\(", "self.up_heapify("), (r"\bself\.up_heapify\(", "self.heapify("),
    (r"\bbubble_up_min\(", "bubble_up_max("), (r"\bbubble_up_max\(", "bubble_up_min("), (r"\bheapify_min\(", "heapify_max("), (r"\bheapify_max\(", "heapify_min("),
    (r"\bpop_min\(", "pop_max("), (r"\bpop_max\(", "pop_min("), (r"\bfind_min\(", "find_max("), (r"\bfind_max\(", "find_min("),
    (r"\.first\(\)", ".last()"), (r"\.last\(\)", ".first()"), (r"Ordering::Less", "Ordering::Greater"), (r"Ordering::Greater", "Ordering::Less"),
    (r"\bmin_by_key\(", "max_by_key("), (r"\bmax_by_key\(", "min_by_key("), (r"% 2 == 0", "% 2 == 1"), (r"\bparent\(parent\(", "parent(("),
    (r"\bpush_increase\(", "push_decrease("), (r"\bpush_decrease\(", "push_increase("), (r"\.is_some\(\)", ".is_none()"), (r"\.is_none\(\)", ".is_some()"),
]
FIRST_NEW = 23


def sites():
    fns, _, _ = gen.collect(gen.run_pqx())
    out = []
    for fn in fns:
        if "fmt@" in fn.key or fn.key.startswith("lib::"):
            continue
        a, b = fn.node["body"]
        body = fn.src.data[a:b].decode()
        for oi, (pat, rep) in enumerate(OPS):
            for m in re.finditer(pat, body):
                # not inside a comment
                ls = body.rfind("\n", 0, m.start()) + 1
                if "//" in body[ls:m.start()]:
                    continue
                out.append((fn.src.rel, a + m.start(), a + m.end(), rep, fn.key, oi))
    return out


def sh(cmd, **kw):
    return subprocess.run(cmd, capture_output=True, text=True, **kw)


import queue
SLOTS = queue.Queue()


def run_one(k, site):
    slot = SLOTS.get()
    try:
        return run_one_(k, site, slot)
    finally:
        SLOTS.put(slot)


def run_one_(k, site, slot):
    rel, a, b, rep, key, oi = site
    wt = tempfile.mkdtemp(prefix="pq-mut.", dir="/tmp")
    shutil.rmtree(wt)
    sh(["git", "-C", "/repo", "worktree", "add", "-q", "--detach", wt, "HEAD"])
    try:
        p = os.path.join(wt, rel)
        data = open(p, "rb").read()
        old = data[a:b].decode()
        open(p, "wb").write(data[:a] + rep.encode() + data[b:])
        line = data[:a].count(b"\n") + 1
        desc = "%s:%d %s: `%s` -> `%s`" % (rel, line, key.split("::")[-1], old.strip()[:40], rep.strip()[:20] or "(deleted)")
        tgt = "/tmp/pq-mut-target-%d" % slot
        t = sh(["timeout", "-k", "5", "180", "cargo", "test", "--offline", "--features", "serde"], cwd=wt, env=dict(os.environ, CARGO_TARGET_DIR=tgt, CARGO_NET_OFFLINE="true"))
        if t.returncode in (124, 137):
            sh(["pkill", "-f", tgt + "/debug/dep[s]"])
            return desc, "killed-by-tests (hang)"
        if "error" in t.stderr and "could not compile" in t.stderr:
            return desc, "does-not-compile"
        if t.returncode != 0:
            return desc, "killed-by-tests"
        out = "/tmp/pq-mut-gen-%d" % k
        v = sh([sys.executable, os.path.join(VERIF, "tools/dev.py"), "."], env=dict(os.environ, PQ_REPO=wt, PQ_DEV_OUT=out, TAIL="3000", PQ_ALLOW_MISSING=""))
        shutil.rmtree(out, ignore_errors=True)
        txt = v.stdout + v.stderr
        mm = re.search(r"verification results:: (\d+) verified, (\d+) errors", txt)
        noticed = (mm is None) or int(mm.group(2)) > 0 or "UNDECIDED" in txt
        if not noticed:
            # generated obligations (cost, audits)
            for pid in ("C05", "C10", "C18"):
                c = sh([os.path.join(VERIF, "check"), pid], env=dict(os.environ, PQ_REPO=wt, PQ_NO_CEX="1", PQ_EVIDENCE_DIR=wt + "/_ev", PQ_REPLAY_DIR=wt + "/_rp", PQ_GEN_TAG="_mut%d" % k))
                if c.returncode != 0:
                    noticed = True
                    break
        if noticed:
            return desc, "noticed"
        c = sh([os.path.join(VERIF, "harness/cex/run.sh"), wt, "search", "any", "5", "30000", "120"],
               env=dict(os.environ, PQ_CEX_WORK="/tmp/pq-mut-cex-%d" % slot, PQ_CEX_TARGET="/tmp/pq-mut-cex-%d/target" % slot, PQ_CEX_TIMEOUT="120"))
        if c.returncode == 1 and "=>" in c.stdout:
            why = [l for l in c.stdout.split("\n") if l.strip().startswith("=>")]
            return desc, "GAP (behaviour changes, nothing noticed): " + (why[-1].strip()[:160] if why else "")
        c2 = sh([os.path.join(VERIF, "harness/cex/run.sh"), wt, "search", "C10", "5", "30000", "120"],
                env=dict(os.environ, PQ_CEX_WORK="/tmp/pq-mut-cex-%d" % slot, PQ_CEX_TARGET="/tmp/pq-mut-cex-%d/target" % slot, PQ_CEX_TIMEOUT="120"))
        if c2.returncode == 1 and "=>" in c2.stdout:
            why = [l for l in c2.stdout.split("\n") if l.strip().startswith("=>")]
            return desc, "GAP (fault history, nothing noticed): " + (why[-1].strip()[:160] if why else "")
        return desc, "survives-everything (equivalent?)"
    finally:
        sh(["git", "-C", "/repo", "worktree", "remove", "--force", wt])


if __name__ == "__main__":
    n, seed = int(sys.argv[1]), int(sys.argv[2])
    JOBS = int(sys.argv[3]) if len(sys.argv) > 3 else 3
    all_sites = sites()
    if len(sys.argv) > 4 and sys.argv[4] == "new":
        all_sites = [x for x in all_sites if x[5] >= FIRST_NEW]
    random.Random(seed).shuffle(all_sites)
    pick = all_sites[:n]
    print("%d mutation sites, %d sampled (seed %d)" % (len(all_sites), len(pick), seed), flush=True)
    for i in range(JOBS):
        SLOTS.put(i)
    res = []
    with ThreadPoolExecutor(max_workers=JOBS) as ex:
        for desc, verdict in ex.map(lambda x: run_one(*x), enumerate(pick)):
            print("%-110s %s" % (desc, verdict), flush=True)
            res.append((desc, verdict))
    from collections import Counter
    c = Counter(v.split(" ")[0].split(":")[0] for _, v in res)
    print("summary:", dict(c))
    for i in range(JOBS):
        shutil.rmtree("/tmp/pq-mut-target-%d" % i, ignore_errors=True)
        shutil.rmtree("/tmp/pq-mut-cex-%d" % i, ignore_errors=True)
