//! pqx — structural index of a Rust source file, as JSON.
//!
//! `pqx <file.rs>...` parses each file with `syn` and prints one JSON document: for every
//! item (struct / impl / fn / mod / ...) its byte spans, and for every function body the
//! expression tree with byte spans of every node and of the parts the generator needs
//! (receiver / method / args of a method call, parameters / body of a closure, pattern /
//! iterator / body of a `for`, ...).  Nothing is interpreted here: the generator
//! (`tools/gen.py`) copies source text by these byte ranges.
use proc_macro2::Span;
use serde_json::{json, Map, Value};
use syn::spanned::Spanned;
use syn::visit::{self, Visit};

fn sp(s: Span) -> (usize, usize) {
    let r = s.byte_range();
    (r.start, r.end)
}
fn spv<T: Spanned>(t: &T) -> Value {
    let (a, b) = sp(t.span());
    json!([a, b])
}

struct Tree<'s> {
    src: &'s str,
    stack: Vec<Vec<Value>>,
}

impl<'s> Tree<'s> {
    fn new(src: &'s str) -> Self {
        Tree { src, stack: vec![vec![]] }
    }
    fn text(&self, s: Span) -> String {
        let (a, b) = sp(s);
        self.src[a..b].to_string()
    }
    fn enter(&mut self) {
        self.stack.push(vec![]);
    }
    fn leave(&mut self, kind: &str, span: Span, mut f: Map<String, Value>) {
        let children = self.stack.pop().unwrap();
        let (a, b) = sp(span);
        f.insert("k".into(), json!(kind));
        f.insert("s".into(), json!(a));
        f.insert("e".into(), json!(b));
        f.insert("c".into(), Value::Array(children));
        self.stack.last_mut().unwrap().push(Value::Object(f));
    }
    fn finish(mut self) -> Vec<Value> {
        self.stack.pop().unwrap()
    }
}

fn expr_kind(e: &syn::Expr) -> &'static str {
    use syn::Expr::*;
    match e {
        Array(_) => "Array",
        Assign(_) => "Assign",
        Async(_) => "Async",
        Await(_) => "Await",
        Binary(_) => "Binary",
        Block(_) => "BlockExpr",
        Break(_) => "Break",
        Call(_) => "Call",
        Cast(_) => "Cast",
        Closure(_) => "Closure",
        Const(_) => "Const",
        Continue(_) => "Continue",
        Field(_) => "Field",
        ForLoop(_) => "ForLoop",
        Group(_) => "Group",
        If(_) => "If",
        Index(_) => "Index",
        Infer(_) => "Infer",
        Let(_) => "LetExpr",
        Lit(_) => "Lit",
        Loop(_) => "Loop",
        Macro(_) => "Macro",
        Match(_) => "Match",
        MethodCall(_) => "MethodCall",
        Paren(_) => "Paren",
        Path(_) => "Path",
        Range(_) => "Range",
        RawAddr(_) => "RawAddr",
        Reference(_) => "Reference",
        Repeat(_) => "Repeat",
        Return(_) => "Return",
        Struct(_) => "Struct",
        Try(_) => "Try",
        TryBlock(_) => "TryBlock",
        Tuple(_) => "Tuple",
        Unary(_) => "Unary",
        Unsafe(_) => "Unsafe",
        Verbatim(_) => "Verbatim",
        While(_) => "While",
        Yield(_) => "Yield",
        _ => "Other",
    }
}

impl<'ast, 's> Visit<'ast> for Tree<'s> {
    fn visit_expr(&mut self, e: &'ast syn::Expr) {
        self.enter();
        let mut f = Map::new();
        use syn::Expr::*;
        match e {
            MethodCall(m) => {
                f.insert("method".into(), json!(m.method.to_string()));
                f.insert("method_span".into(), spv(&m.method));
                f.insert("receiver".into(), spv(&*m.receiver));
                f.insert("dot".into(), spv(&m.dot_token));
                f.insert("args".into(), Value::Array(m.args.iter().map(|a| spv(a)).collect()));
                f.insert("paren".into(), {
                    let (a, b) = sp(m.paren_token.span.join());
                    json!([a, b])
                });
                if let Some(t) = &m.turbofish {
                    f.insert("turbofish".into(), spv(t));
                }
            }
            Call(c) => {
                f.insert("func".into(), spv(&*c.func));
                f.insert("func_text".into(), json!(self.text(c.func.span())));
                f.insert("args".into(), Value::Array(c.args.iter().map(|a| spv(a)).collect()));
            }
            Closure(c) => {
                f.insert("move".into(), json!(c.capture.is_some()));
                f.insert(
                    "inputs".into(),
                    Value::Array(
                        c.inputs
                            .iter()
                            .map(|p| {
                                let simple = matches!(p, syn::Pat::Ident(pi) if pi.subpat.is_none() && pi.by_ref.is_none());
                                let typed = matches!(p, syn::Pat::Type(_));
                                json!({"span": spv(p), "simple_ident": simple, "typed": typed, "text": self.text(p.span())})
                            })
                            .collect(),
                    ),
                );
                f.insert("body".into(), spv(&*c.body));
                f.insert("body_is_block".into(), json!(matches!(&*c.body, syn::Expr::Block(_))));
                f.insert("has_output".into(), json!(!matches!(c.output, syn::ReturnType::Default)));
            }
            ForLoop(l) => {
                if let Some(lb) = &l.label {
                    f.insert("label".into(), json!(self.text(lb.span())));
                }
                f.insert("pat".into(), spv(&*l.pat));
                f.insert("iter".into(), spv(&*l.expr));
                f.insert("body".into(), spv(&l.body));
                f.insert("iter_kind".into(), json!(expr_kind(&l.expr)));
            }
            While(l) => {
                if let Some(lb) = &l.label {
                    f.insert("label".into(), json!(self.text(lb.span())));
                }
                f.insert("cond".into(), spv(&*l.cond));
                f.insert("body".into(), spv(&l.body));
                f.insert("cond_is_let".into(), json!(matches!(&*l.cond, syn::Expr::Let(_))));
            }
            Loop(l) => {
                f.insert("body".into(), spv(&l.body));
            }
            Try(t) => {
                f.insert("expr".into(), spv(&*t.expr));
            }
            Binary(b) => {
                f.insert("op".into(), json!(self.text(b.op.span())));
                f.insert("op_span".into(), spv(&b.op));
                f.insert("left".into(), spv(&*b.left));
                f.insert("right".into(), spv(&*b.right));
            }
            Unary(u) => {
                f.insert("op".into(), json!(self.text(u.op.span())));
                f.insert("expr".into(), spv(&*u.expr));
            }
            Cast(c) => {
                f.insert("expr".into(), spv(&*c.expr));
                f.insert("ty".into(), json!(self.text(c.ty.span())));
            }
            If(i) => {
                f.insert("cond".into(), spv(&*i.cond));
                f.insert("then".into(), spv(&i.then_branch));
                if let Some((_, e)) = &i.else_branch {
                    f.insert("else".into(), spv(&**e));
                }
            }
            Match(m) => {
                f.insert("scrutinee".into(), spv(&*m.expr));
            }
            Macro(m) => {
                f.insert("path".into(), json!(self.text(m.mac.path.span())));
            }
            Path(p) => {
                f.insert("text".into(), json!(self.text(p.span())));
            }
            Field(x) => {
                f.insert("base".into(), spv(&*x.base));
                f.insert("member".into(), json!(self.text(x.member.span())));
            }
            Index(x) => {
                f.insert("base".into(), spv(&*x.expr));
                f.insert("index".into(), spv(&*x.index));
            }
            Unsafe(u) => {
                f.insert("block".into(), spv(&u.block));
            }
            Paren(p) => {
                f.insert("expr".into(), spv(&*p.expr));
            }
            Reference(r) => {
                f.insert("mut".into(), json!(r.mutability.is_some()));
                f.insert("expr".into(), spv(&*r.expr));
            }
            Let(l) => {
                f.insert("pat".into(), spv(&*l.pat));
                f.insert("expr".into(), spv(&*l.expr));
            }
            Return(r) => {
                if let Some(x) = &r.expr {
                    f.insert("expr".into(), spv(&**x));
                }
            }
            Assign(a) => {
                f.insert("left".into(), spv(&*a.left));
                f.insert("right".into(), spv(&*a.right));
            }
            Array(a) => {
                f.insert("elems".into(), Value::Array(a.elems.iter().map(|x| spv(x)).collect()));
            }
            _ => {}
        }
        visit::visit_expr(self, e);
        self.leave(expr_kind(e), e.span(), f);
    }
    fn visit_block(&mut self, b: &'ast syn::Block) {
        self.enter();
        visit::visit_block(self, b);
        let mut f = Map::new();
        f.insert("nstmts".into(), json!(b.stmts.len()));
        self.leave("Block", b.span(), f);
    }
    fn visit_local(&mut self, l: &'ast syn::Local) {
        self.enter();
        let mut f = Map::new();
        f.insert("pat".into(), spv(&l.pat));
        f.insert("pat_text".into(), json!(self.text(l.pat.span())));
        if let Some(init) = &l.init {
            f.insert("init".into(), spv(&*init.expr));
            f.insert("has_else".into(), json!(init.diverge.is_some()));
        }
        visit::visit_local(self, l);
        self.leave("Local", l.span(), f);
    }
    fn visit_stmt(&mut self, s: &'ast syn::Stmt) {
        // statement nodes carry the full span including the trailing `;`
        self.enter();
        let mut f = Map::new();
        let kind = match s {
            syn::Stmt::Local(_) => "StmtLocal",
            syn::Stmt::Item(_) => "StmtItem",
            syn::Stmt::Expr(_, semi) => {
                f.insert("semi".into(), json!(semi.is_some()));
                "StmtExpr"
            }
            syn::Stmt::Macro(m) => {
                f.insert("path".into(), json!(self.text(m.mac.path.span())));
                "StmtMacro"
            }
        };
        visit::visit_stmt(self, s);
        self.leave(kind, s.span(), f);
    }
    fn visit_arm(&mut self, a: &'ast syn::Arm) {
        self.enter();
        let mut f = Map::new();
        f.insert("pat".into(), spv(&a.pat));
        f.insert("body".into(), spv(&*a.body));
        if let Some((_, g)) = &a.guard {
            f.insert("guard".into(), spv(&**g));
        }
        visit::visit_arm(self, a);
        self.leave("Arm", a.span(), f);
    }
    fn visit_item(&mut self, _i: &'ast syn::Item) {
        // nested items inside bodies (`use indexmap::map::Entry::*;`) are recorded as leaves
        self.enter();
        self.leave("Item", _i.span(), Map::new());
    }
}

fn attrs_json(src: &str, attrs: &[syn::Attribute]) -> Value {
    Value::Array(
        attrs
            .iter()
            .map(|a| {
                let (s, e) = sp(a.span());
                json!({"span":[s,e], "text": &src[s..e], "path": a.path().segments.iter().map(|x| x.ident.to_string()).collect::<Vec<_>>().join("::")})
            })
            .collect(),
    )
}

fn sig_json(src: &str, sig: &syn::Signature) -> Map<String, Value> {
    let mut f = Map::new();
    f.insert("name".into(), json!(sig.ident.to_string()));
    f.insert("name_span".into(), spv(&sig.ident));
    f.insert("sig_span".into(), spv(sig));
    f.insert("fn_token".into(), spv(&sig.fn_token));
    f.insert("unsafe".into(), json!(sig.unsafety.is_some()));
    f.insert("const".into(), json!(sig.constness.is_some()));
    if sig.generics.lt_token.is_some() {
        let a = sp(sig.generics.lt_token.unwrap().span()).0;
        let b = sp(sig.generics.gt_token.unwrap().span()).1;
        f.insert("generics".into(), json!([a, b]));
    }
    if let Some(w) = &sig.generics.where_clause {
        f.insert("where".into(), spv(w));
    }
    f.insert("paren".into(), {
        let (a, b) = sp(sig.paren_token.span.join());
        json!([a, b])
    });
    let mut inputs = vec![];
    for i in &sig.inputs {
        match i {
            syn::FnArg::Receiver(r) => {
                inputs.push(json!({"receiver": true, "span": spv(r), "ref": r.reference.is_some(),
                    "mut": r.mutability.is_some(), "text": &src[sp(r.span()).0..sp(r.span()).1]}));
            }
            syn::FnArg::Typed(t) => {
                let mutable = matches!(&*t.pat, syn::Pat::Ident(pi) if pi.mutability.is_some());
                let name = match &*t.pat {
                    syn::Pat::Ident(pi) => pi.ident.to_string(),
                    _ => String::new(),
                };
                inputs.push(json!({"receiver": false, "span": spv(t), "pat": spv(&*t.pat), "ty": spv(&*t.ty),
                    "mut": mutable, "name": name, "ty_text": &src[sp(t.ty.span()).0..sp(t.ty.span()).1]}));
            }
        }
    }
    f.insert("inputs".into(), Value::Array(inputs));
    match &sig.output {
        syn::ReturnType::Default => {}
        syn::ReturnType::Type(arrow, ty) => {
            f.insert("ret_arrow".into(), spv(arrow));
            f.insert("ret_ty".into(), spv(&**ty));
            f.insert("ret_ty_text".into(), json!(&src[sp(ty.span()).0..sp(ty.span()).1]));
        }
    }
    f
}

fn body_tree(src: &str, block: &syn::Block) -> Value {
    let mut t = Tree::new(src);
    t.visit_block(block);
    let mut v = t.finish();
    v.pop().unwrap()
}

fn fn_json(src: &str, attrs: &[syn::Attribute], vis: Option<&syn::Visibility>, sig: &syn::Signature, block: &syn::Block, whole: Span) -> Value {
    let mut f = sig_json(src, sig);
    f.insert("kind".into(), json!("fn"));
    f.insert("span".into(), { let (a, b) = sp(whole); json!([a, b]) });
    f.insert("attrs".into(), attrs_json(src, attrs));
    if let Some(v) = vis {
        let (a, b) = sp(v.span());
        f.insert("vis".into(), json!(&src[a..b]));
        f.insert("vis_span".into(), json!([a, b]));
    }
    f.insert("body".into(), spv(block));
    f.insert("tree".into(), body_tree(src, block));
    Value::Object(f)
}

fn generics_json(src: &str, g: &syn::Generics) -> Map<String, Value> {
    let mut f = Map::new();
    if g.lt_token.is_some() {
        let a = sp(g.lt_token.unwrap().span()).0;
        let b = sp(g.gt_token.unwrap().span()).1;
        f.insert("generics".into(), json!([a, b]));
        f.insert("generics_text".into(), json!(&src[a..b]));
    }
    if let Some(w) = &g.where_clause {
        f.insert("where".into(), spv(w));
        f.insert("where_text".into(), json!(&src[sp(w.span()).0..sp(w.span()).1]));
    }
    f
}

fn items_json(src: &str, items: &[syn::Item]) -> Vec<Value> {
    let mut out = vec![];
    for it in items {
        let (a, b) = sp(it.span());
        match it {
            syn::Item::Struct(s) => {
                let mut f = generics_json(src, &s.generics);
                f.insert("kind".into(), json!("struct"));
                f.insert("name".into(), json!(s.ident.to_string()));
                f.insert("span".into(), json!([a, b]));
                f.insert("attrs".into(), attrs_json(src, &s.attrs));
                let st = sp(s.struct_token.span()).0;
                let ds = if matches!(s.vis, syn::Visibility::Inherited) { st } else { sp(s.vis.span()).0.min(st) };
                f.insert("decl_start".into(), json!(ds));
                f.insert("struct_token".into(), spv(&s.struct_token));
                f.insert("fields".into(), spv(&s.fields));
                out.push(Value::Object(f));
            }
            syn::Item::Impl(i) => {
                let mut f = generics_json(src, &i.generics);
                f.insert("kind".into(), json!("impl"));
                f.insert("span".into(), json!([a, b]));
                f.insert("attrs".into(), attrs_json(src, &i.attrs));
                f.insert("impl_token".into(), spv(&i.impl_token));
                if let Some((_, path, for_tok)) = &i.trait_ {
                    f.insert("trait".into(), json!(&src[sp(path.span()).0..sp(path.span()).1]));
                    f.insert("trait_span".into(), spv(path));
                    f.insert("for_span".into(), spv(for_tok));
                    f.insert("trait_last".into(), json!(path.segments.last().unwrap().ident.to_string()));
                }
                f.insert("self_ty".into(), spv(&*i.self_ty));
                f.insert("self_ty_text".into(), json!(&src[sp(i.self_ty.span()).0..sp(i.self_ty.span()).1]));
                if let syn::Type::Reference(r) = &*i.self_ty {
                    f.insert("self_ref".into(), json!({"mut": r.mutability.is_some(),
                        "lifetime": r.lifetime.as_ref().map(|l| l.to_string()),
                        "elem": spv(&*r.elem)}));
                }
                f.insert("brace".into(), { let (x, y) = sp(i.brace_token.span.join()); json!([x, y]) });
                let mut sub = vec![];
                for ii in &i.items {
                    let (x, y) = sp(ii.span());
                    match ii {
                        syn::ImplItem::Fn(m) => sub.push(fn_json(src, &m.attrs, Some(&m.vis), &m.sig, &m.block, ii.span())),
                        syn::ImplItem::Type(t) => sub.push(json!({"kind":"type","name":t.ident.to_string(),"span":[x,y],
                            "ty": &src[sp(t.ty.span()).0..sp(t.ty.span()).1]})),
                        _ => sub.push(json!({"kind":"other","span":[x,y]})),
                    }
                }
                f.insert("items".into(), Value::Array(sub));
                out.push(Value::Object(f));
            }
            syn::Item::Fn(func) => out.push(fn_json(src, &func.attrs, Some(&func.vis), &func.sig, &func.block, it.span())),
            syn::Item::Mod(m) => {
                let mut f = Map::new();
                f.insert("kind".into(), json!("mod"));
                f.insert("name".into(), json!(m.ident.to_string()));
                f.insert("span".into(), json!([a, b]));
                f.insert("attrs".into(), attrs_json(src, &m.attrs));
                if let Some((_, its)) = &m.content {
                    f.insert("items".into(), Value::Array(items_json(src, its)));
                }
                out.push(Value::Object(f));
            }
            syn::Item::Use(u) => out.push(json!({"kind":"use","span":[a,b],"attrs":attrs_json(src,&u.attrs)})),
            syn::Item::Trait(t) => out.push(json!({"kind":"trait","name":t.ident.to_string(),"span":[a,b]})),
            syn::Item::Enum(t) => out.push(json!({"kind":"enum","name":t.ident.to_string(),"span":[a,b]})),
            syn::Item::Const(t) => out.push(json!({"kind":"const","name":t.ident.to_string(),"span":[a,b]})),
            syn::Item::Type(t) => out.push(json!({"kind":"typealias","name":t.ident.to_string(),"span":[a,b]})),
            _ => out.push(json!({"kind":"other","span":[a,b]})),
        }
    }
    out
}

fn main() {
    let args: Vec<String> = std::env::args().skip(1).collect();
    // mode `--expr-tree`: parse stdin as a function item and print its tree (used to re-index rewritten text)
    let mut files = vec![];
    for path in &args {
        let src = match std::fs::read_to_string(path) {
            Ok(s) => s,
            Err(e) => {
                eprintln!("pqx: cannot read {}: {}", path, e);
                std::process::exit(2);
            }
        };
        let file = match syn::parse_file(&src) {
            Ok(f) => f,
            Err(e) => {
                eprintln!("pqx: cannot parse {}: {}", path, e);
                std::process::exit(2);
            }
        };
        // byte_range() counts bytes of the parsed string; non-ASCII sources are fine.
        files.push(json!({"path": path, "len": src.len(), "items": items_json(&src, &file.items)}));
    }
    println!("{}", serde_json::to_string(&json!({"files": files})).unwrap());
}
