#!/usr/bin/env python3
"""probe.py -- vacuity guard: regenerate the verifier input with `assert(false)` at the entry of every function
under contract and of every loop body, and check that Verus REJECTS every one of them.  A probe that verifies
means a contradictory precondition or loop invariant (everything after it would verify vacuously).
Prints one line per surviving probe; exit 0 if none survive, 3 otherwise."""
import json, os, subprocess, sys
VERIF = os.path.dirname(os.path.dirname(os.path.abspath(__file__)))
sys.path.insert(0, os.path.join(VERIF, "tools"))
import gen


def run(outdir, only=None, stub=None):
    gen.generate(outdir, stub=stub, probe=True)
    m = json.load(open(os.path.join(outdir, "map.json")))
    mods = sorted(set(f["module"] for k, f in m["functions"].items() if f["mode"] in ("contract", "plain") and (only is None or k in only)))
    cmd = ["verus", "pq_verif.rs", "--triggers-mode", "silent", "--error-format=json", "--multiple-errors", "30",
           "--num-threads", "16", "--rlimit", "20"]
    for x in mods:
        cmd += ["--verify-only-module", x]
    r = subprocess.run(cmd, cwd=outdir, capture_output=True, text=True)
    hit = set()
    spans = [s for s in m["spans"] if "#probe." in s["id"]]
    for line in r.stderr.split("\n"):
        if not line.startswith("{"):
            continue
        d = json.loads(line)
        if d.get("level") != "error":
            continue
        if d.get("code"):
            return None, None       # the probe input does not compile: probes not run (never "surviving")
        for sp in d.get("spans", []):
            for s in spans:
                if s["start"] <= sp["byte_start"] and sp["byte_end"] <= s["end"]:
                    hit.add(s["id"])
    probes = [p for p in m["probes"] if m["functions"].get(p.split("#probe.")[0], {}).get("mode") in ("contract", "plain")
              and (only is None or p.split("#probe.")[0] in only)]
    # a loop-body probe sits behind the failing function-entry probe of the same function: Verus reports it separately
    surviving = [p for p in probes if p not in hit]
    return probes, surviving


if __name__ == "__main__":
    out = sys.argv[1] if len(sys.argv) > 1 else os.path.join(VERIF, "gen", "_probe")
    probes, surviving = run(out)
    if probes is None:
        print("vacuity probes: input does not compile, not run"); sys.exit(2)
    print("vacuity probes: %d planted, %d rejected by the verifier, %d surviving" % (len(probes), len(probes) - len(surviving), len(surviving)))
    for p in surviving:
        print("SURVIVING PROBE (contradictory requires / invariant?):", p)
    sys.exit(3 if surviving else 0)
