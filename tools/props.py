"""Property-level selection, verdict and evidence for ./check."""
import json
import os
import re
import subprocess
import sys
import time

VERIF = os.path.dirname(os.path.dirname(os.path.abspath(__file__)))

# C04 (no panic / no out-of-bounds) is decided by the built-in obligations of every verified function
ALL_FUNCTIONS = ("C04",)


def select(pid, m):
    fns, mods, clauses, und = [], [], [], []
    for key, f in m["functions"].items():
        if f["mode"] == "undecided" and (pid in f.get("all_tags", []) or pid in ALL_FUNCTIONS):
            und.append((key, f.get("reason", "")))
        if f["mode"] in ("skip", "assumed", "undecided"):
            continue
        mine = [c for c in f.get("clauses", []) if pid in m["clauses"][c]["tags"]]
        if mine or pid in ALL_FUNCTIONS or pid in f.get("nopanic", []):
            fns.append(key)
            mods.append(f["module"])
            clauses += mine
    return {"functions": fns, "modules": mods, "clauses": clauses, "undecided_functions": und}


def cex_search(pid, seed, sequences=40000, budget=300):
    """-> text of a failing history found on the real code, or None"""
    if os.environ.get("PQ_NO_CEX"):
        return None
    repo = os.environ.get("PQ_REPO", "/repo")
    work = os.path.join(VERIF, "gen", "_cex")
    env = dict(os.environ, PQ_CEX_WORK=work, PQ_CEX_TARGET=os.path.join(work, "target"), PQ_CEX_TIMEOUT=str(budget))
    try:
        r = subprocess.run([os.path.join(VERIF, "harness/cex/run.sh"), repo, "search", pid, str(seed + 7), str(sequences), "120"],
                           capture_output=True, text=True, env=env, timeout=400 + budget)
    except Exception:
        return None
    out = r.stdout
    if r.returncode == 1 and "REPLAY:" in out:
        return out[out.index("FAILING HISTORY"):] if "FAILING HISTORY" in out else out
    return None


def known_findings():
    path = os.path.join(VERIF, "known_findings.txt")
    out = []
    if os.path.exists(path):
        for line in open(path):
            line = line.strip()
            m = re.match(r"finding:\s*property=(\S+)\s+clause=(\S+)\s*(.*)$", line)
            if m:
                out.append({"property": m.group(1), "clause": m.group(2), "what": m.group(3)})
    return out


def trusted_base(m):
    """mechanical scan of everything that goes into Verus for unproved assumptions"""
    tb = []
    for f in ("prelude.vrs", "indexmap_stub.vrs", "serde_stub.vrs", "specs.vrs"):
        txt = open(os.path.join(VERIF, "contracts", f)).read()
        for mm in re.finditer(r"assume_specification[^\[]*\[\s*((?:<\[T\]>)?[^\]]+)\]", txt):
            tb.append("%s: assume_specification %s" % (f, re.sub(r"\s+", " ", mm.group(1).strip())))
        for mm in re.finditer(r"#\[verifier::external_body\]\s*(?:#\[[^\]]*\]\s*)*pub (?:broadcast )?(?:proof )?(?:fn|struct) (\w+)", txt):
            tb.append("%s: external_body %s" % (f, mm.group(1)))
        n = len(re.findall(r"\b(assume|admit)\s*\(", txt))
        if n:
            tb.append("%s: %d assume()/admit() statements" % (f, n))
    ovdir = os.path.join(VERIF, "contracts/overlay")
    for f in sorted(os.listdir(ovdir)):
        if not f.endswith(".ov"):
            continue
        for ln, line in enumerate(open(os.path.join(ovdir, f)), 1):
            if re.search(r"\b(assume|admit)\s*\(", line) and not line.lstrip().startswith("//"):
                tb.append("overlay/%s: %s" % (f, line.strip()))
    for key, f in m["functions"].items():
        if f["mode"] == "assumed":
            tb.append("/repo %s: contract assumed, body not verified (%s)" % (key, f.get("reason", "")))
        for rw in f.get("rewrites", []):
            if rw.startswith("R6") and not f.get("expanded_everywhere"):     # its callers carry the site (R20)
                tb.append("/repo %s: %s" % (key, rw))
    return sorted(set(tb))


def allowlist_drift(tb):
    """entries of the trusted base that are not on the committed allow-list (-> UNDECIDED, never a pass)"""
    path = os.path.join(VERIF, "contracts/trusted_allowlist.txt")
    allowed = set(l.rstrip("\n") for l in open(path)) if os.path.exists(path) else set()
    return [t for t in tb if t not in allowed]


def fn_breakdown(res):
    out = {}
    try:
        for mod in res["times-ms"]["smt"]["smt-run-module-times"]:
            for f in mod.get("function-breakdown", []):
                out[f["function"]] = f
    except Exception:
        pass
    return out


def write_evidence(pid, tier, seed, m, sel, violations, samples, wall, undecided=None, cmd=None, extra=None):
    evdir = os.environ.get("PQ_EVIDENCE_DIR", os.path.join(VERIF, "evidence"))
    os.makedirs(evdir, exist_ok=True)
    cov = {
        "obligations": 0, "discharged": 0,
        "checker_cmd": " ".join(cmd) if cmd else "verus gen/<id>/pq_verif.rs (not run)",
        "trusted_base": trusted_base(m) if m else [],
        "samples": samples,
    }
    if extra:
        cov.update(extra)
    if undecided:
        cov["undecided"] = undecided
    ev = {"property_id": pid, "tier": tier, "seed": seed, "level": "proof", "coverage": cov,
          "assumptions": ASSUMPTIONS + PROP_ASSUMPTIONS.get(pid, []), "wall_s": round(wall, 2), "violations": len(violations)}
    json.dump(ev, open(os.path.join(evdir, pid + ".json"), "w"), indent=1)
    return ev


ASSUMPTIONS = [
    "indexmap::IndexMap behaves as specified in contracts/indexmap_stub.vrs (assumed contracts on a dependency)",
    "core/alloc functions behave as specified by vstd and contracts/prelude.vrs (assume_specification)",
    "the priority type's Ord is a total order (ord_laws) and Hash/Eq of items are consistent (axiom_eqv_*): the hypotheses of the properties, as requires clauses / axioms",
    "usize is 64 bits; a Vec of 8-byte elements has at most 2^60-1 entries (axiom_vec_*_len)",
    "#[derive(PartialEq, PartialOrd)] on Index/Position is field-wise (PartialEqSpecImpl / PartialOrdSpecImpl)",
    "the declared rewrites R0-R20 of tools/gen.py preserve behaviour (validated by compiling the rewritten crate against the test suite in the thorough tier)",
    "user closures and iterators terminate; termination of loops over user iterators is not proved",
    "trait-impl methods are verified as inherent methods of the same body (dynamic dispatch through std traits not modelled)",
]


PROP_ASSUMPTIONS = {
    "C05": ["comparison counts are a generated static derivation over the syntax tree (tools/cost.py), not a Verus proof; the sum of sift heights in heap_build being O(n) (Floyd) is assumed"],
    "C08": ["R21: the bound FnMut(&I, &P) -> bool of the three retain functions is verified as Fn(&I, &P) -> bool (the adapter closure of Store::retain captures the predicate by shared reference); IterMut2 (with the prophecy of the final entries) / retain2-with-recorded-answers stub contracts (audited at run time in the thorough tier)", "Verus models FnMut / FnOnce closures as fixed relations between arguments and result (f.ensures); a closure's own mutable state is not tracked", "R19: Vec::into_iter yields the elements of the vector in order"],
    "C09": ["the raw-pointer reborrow in IterMut::next (rewrite R6, __launder) is trusted to be the identity on the two references"],
    "C10": ["Verus has no unwinding semantics: 'the tables are consistent whenever user code can panic' => 'safe after a caught panic' is a meta-argument",
            "panics of the user's Hash / Eq inside IndexMap's own lookups and insertions are left to indexmap / hashbrown (they probe before they mutate)",
            "double drops / leaks are not expressible; ownership is rustc's"],
    "C13": ["std's iterator adaptors over these iterators are trusted; overrides of std defaults are only under contract where the overlay has an (optional) record for them"],
    "C14": ["#[derive(Clone)] clones field-wise and the fields own their data (structural audit, tools/audit.py); reflexivity / symmetry / transitivity are those of IndexMap's map equality"],
    "C15": ["serde's driver (Deserializer::deserialize_seq -> Visitor::visit_seq) and the data formats are outside the verifier's reach; Store::deserialize has an assumed contract"],
    "C16": ["IndexMap::drain leaves the map empty however the iterator is consumed or leaked (stub contract, audited at run time)"],
    "C17": ["allocation failure is modelled only through the Result of try_reserve*; capacity() of the IndexMap is an uninterpreted function constrained by the stub's reserve contracts"],
    "C18": ["the IndexMap stub's contracts do not mention the hasher: IndexMap's behaviour under degenerate or keyed hashers is indexmap's"],
}


def report(pid, tier, seed, m, sel, res, findings, cmd, t0, outdir):
    selected = set(sel["functions"])
    fb = fn_breakdown(res)
    mine = [f for f in findings if pid in f["tags"]]
    undecided = [f for f in findings if f["kind"] in ("rlimit", "untagged", "tool") and (f["fn"] is None or f["fn"] in selected)]
    others = [f for f in findings if f not in mine and f not in undecided and f["fn"] in selected]
    # A failed assertion / invariant / call precondition is *assumed* by the verifier for the rest of the function body,
    # so obligations that come after it may verify vacuously.  If such a failure (of another property) sits in a function
    # that also carries clauses of this property, this property is not decided there.
    masked = []
    for f in others:
        low = f["msg"].lower()
        if "postcondition" in low or f["fn"] is None:
            continue
        fn = m["functions"].get(f["fn"], {})
        if any(pid in m["clauses"][c]["tags"] for c in fn.get("clauses", []) if c in m["clauses"]):
            masked.append(f)
    # Functions the overlay does not know carry no contract.  (a) A caller that leans on one cannot have its clauses
    # decided by a failed proof: the failure may only mean "callee has no postcondition" (a harmless helper extraction
    # looks exactly like that) -> undecided there, not a violation.  (b) A new *trait-method override* (nth, nth_back,
    # fold, ...) on a type whose other methods carry clauses of this property replaces a std default the property
    # relies on; nothing here can vouch for it -> undecided.  In both cases the bounded stand-in search follows.
    dead = set(k for k, f in m["functions"].items() if f.get("expanded_everywhere"))
    if dead:
        mine = [f for f in mine if f["fn"] not in dead]
        others = [f for f in others if f["fn"] not in dead]
        masked = [f for f in masked if f["fn"] not in dead]
    unknown = m.get("without_record", [])
    uname = set(k.split("::")[-1].split("@")[0] for k in unknown)
    leaning = set(k for k, f in m["functions"].items() if k not in unknown and uname & set(f.get("callees", [])))
    # (c) a failure *inside* a new private helper (not `pub`, not a trait method) means "this helper needs a contract"
    # (its callers may only use it in states where it is safe), not "bug"
    private_unknown = set(k for k in unknown if m["functions"].get(k, {}).get("vis", "") != "pub" and not m["functions"].get(k, {}).get("trait_impl"))
    # (d) a function whose proof hints lost their anchor (the code around them was rewritten) is verified without them: a
    # clause that fails there may only be missing its hint -- undecided, handed to the stand-in search.  Built-in safety
    # obligations and preconditions of callees need no hints of ours and stay violations.
    hintless = set(k for k, f in m["functions"].items() if f.get("lost_anchors"))
    def needs_hint(f):
        low = f["msg"].lower()
        return f["fn"] in hintless and f["clause"] and ("postcondition" in low or "invariant" in low or "assertion" in low)
    # (e) loop invariants and proof assertions are artifacts of *my* proof of the code as it was: when one of them fails the
    # code may simply do the same thing another way (heap_build by repeated sift-up instead of Floyd's construction is
    # still a heap) -- what the property states are the pre/postconditions, the built-in safety obligations and the
    # generated obligations.  A failed artifact makes the function undecided; the stand-in search decides.
    def artifact(f):
        low = f["msg"].lower()
        return bool(f["clause"]) and ("invariant" in low or "assertion failed" in low)
    moved = [f for f in mine if (f["fn"] in leaning and not (f["clause"] or "").endswith("#typeinv.post")) or f["fn"] in private_unknown or needs_hint(f) or artifact(f)]
    if moved:
        mine = [f for f in mine if f not in moved]
        for f in moved:
            why = "in a new private function without contract" if f["fn"] in private_unknown else \
                "a loop invariant / proof assertion of the contract's own proof: the code may do the same thing another way" if artifact(f) and not needs_hint(f) and f["fn"] not in leaning else \
                "in a function whose proof hints lost their anchor: the proof may only be missing them" if needs_hint(f) and f["fn"] not in leaning else \
                "in a function that calls %s, which has no contract" % ", ".join(sorted(uname & set(m["functions"][f["fn"]].get("callees", []))))
            f = dict(f, kind="tool", msg="%s (%s)" % (f["msg"], why))
            undecided.append(f)
    for k in unknown:
        fk = m["functions"].get(k, {})
        if not fk.get("trait_impl"):
            continue
        tprefix = k.rsplit("::", 1)[0] + "::"
        sib = [k2 for k2, f2 in m["functions"].items() if k2.startswith(tprefix) and k2 != k and any(pid in m["clauses"][c]["tags"] for c in f2.get("clauses", []) if c in m["clauses"])]
        if sib:
            undecided.append({"kind": "tool", "fn": k, "clause": None, "tags": [], "rendered": "",
                              "msg": "new trait-method override %s has no contract; the clauses of %s on %s rely on the default it replaces" % (k, pid, tprefix[:-2])})
    known = known_findings()
    new_viol, known_hit = [], []
    for f in mine:
        k = [x for x in known if x["property"] == pid and x["clause"] == (f["clause"] or f["fn"])]
        (known_hit if k else new_viol).append(f)
    # obligations: tagged clauses (each ensures / invariant / assert section counts once) + built-in sites for C04
    ob = len(sel["clauses"])
    sites = 0
    if pid in ALL_FUNCTIONS:
        for key in sel["functions"]:
            sites += sum(m["functions"][key].get("sites", {}).values())
    ob += sites
    ob += len(sel.get("extra_obligations", []))
    failed_ids = set((f["clause"] or f.get("cost_id") or (f["fn"], f["msg"])) for f in mine)
    discharged = ob - len(failed_ids)
    smt_ms = sum(v.get("time", 0) for k, v in fb.items())
    samples = []
    for c in sel["clauses"][:6]:
        cl = m["clauses"][c]
        samples.append({"obligation": c, "kind": cl["anchor"], "text": cl["text"][:300], "source": m["functions"][cl["fn"]]["file"] + ":" + str(m["functions"][cl["fn"]]["line"])})
    extra = {
        "functions_under_contract": sorted(selected),
        "functions_verified": len([1 for k, v in fb.items() if v.get("success")]),
        "backend": "Verus 0.2026.09.13 / Z3 (bundled)",
        "solver_time_ms": smt_ms,
        "builtin_safety_sites": sites,
        "rule": "one obligation per overlay clause tagged with the property (ensures, loop invariant, decreases, proof assertion block) plus, for C04, one per syntactic built-in obligation site (unchecked access, unwrap, arithmetic, index, call)",
        "repo_head": m.get("repo_head"),
        "rewrites_applied": sorted(set(r for k in selected for r in m["functions"][k].get("rewrites", []))),
        "functions_new_in_source_without_contract": m.get("without_record", []),
        "vacuity_probes": {"planted": sel.get("probes", (0, 0))[0], "surviving": sel.get("probes", (0, 0))[1],
                           "rule": "assert(false) at the entry of every selected function and loop body must be rejected by Verus"},
        "thorough_rewrite_roundtrip": sel.get("roundtrip"),
        "thorough_detection_selftest": sel.get("selftest"),
        "thorough_indexmap_stub_audit": sel.get("stub_audit"),
        "thorough_history_search_on_real_code": sel.get("history_search"),
        "thorough_miri_bounded": sel.get("miri"),
        "generated_cost_obligations": [{"id": o["id"], "declared": o["declared"], "derived": o["derived"]} for o in sel.get("extra_obligations", [])][:80],
        "other_properties_failing_in_shared_functions": sorted(set(t for f in others for t in f["tags"])),
    }
    rc = 0
    lines = []
    for f in known_hit:
        lines.append("KNOWN-FINDING: property=%s %s (%s)" % (pid, f["clause"] or f["fn"], f["msg"]))
    if new_viol:
        rc = 1
        rdir = os.environ.get("PQ_REPLAY_DIR", os.path.join(VERIF, "replays"))
        os.makedirs(rdir, exist_ok=True)
        rpath = os.path.join(rdir, "%s.replay.txt" % pid)
        with open(rpath, "w") as fh:
            fh.write("property: %s\nrepo_head: %s\n" % (pid, m.get("repo_head")))
            fh.write("failed obligations (passed on the unchanged tree, fail on this tree):\n")
            for f in new_viol:
                cl = m["clauses"].get(f["clause"]) if f["clause"] else None
                fh.write("\n--- obligation: %s\n    function: %s\n    verifier: %s\n" % (f["clause"] or f.get("cost_id") or "(built-in safety obligation)", f["fn"], f["msg"]))
                if cl:
                    fh.write("    clause (%s, tags %s): %s\n" % (cl["origin"], ",".join(cl["tags"]), cl["text"]))
                fn = m["functions"].get(f["fn"] or "")
                if fn:
                    fh.write("    source: /repo/%s:%d\n" % (fn["file"], fn["line"]))
                fh.write("    verifier output:\n" + "".join("      " + l + "\n" for l in f["rendered"].split("\n")))
            # Verus yields no model: search for a concrete failing history on the real code (model-based random
            # histories, harness/cex); only reached after a failed obligation, never on a passing tree
            cex = next((f["cex"] for f in new_viol if f.get("cex")), None) or cex_search(pid, seed)
            if cex:
                fh.write("\nfailing input found by harness/cex on the real code (debug build of the crate at %s):\n%s\n" % (os.environ.get("PQ_REPO", "/repo"), cex))
            else:
                fh.write("\ncounterexample: none (Verus yields no model; %s); no-failing-input-found\n"
                         % ("the random-history search on the real code found nothing within its budget" if os.environ.get("PQ_NO_CEX") is None else "search disabled"))
        lines.append("VIOLATION property=%s replay=%s%s" % (pid, rpath, "" if cex else " no-failing-input-found"))
        for f in new_viol[:40]:
            lines.append("  failed obligation: %s in %s: %s" % (f["clause"] or f.get("cost_id") or "built-in", f["fn"], f["msg"]))
    elif undecided or sel.get("undecided_functions") or masked:
        rc = 2
        # bounded stand-in: code the verifier cannot decide on this tree is exercised with random histories on the
        # real crate; only a concrete failing input labelled with this property upgrades "undecided" to a violation
        cex = cex_search(pid, seed)
        if cex:
            rc = 1
            rdir = os.environ.get("PQ_REPLAY_DIR", os.path.join(VERIF, "replays"))
            os.makedirs(rdir, exist_ok=True)
            rpath = os.path.join(rdir, "%s.replay.txt" % pid)
            with open(rpath, "w") as fh:
                fh.write("property: %s\nrepo_head: %s\n" % (pid, m.get("repo_head")))
                fh.write("the deductive check is UNDECIDED on this tree (see the lines below); BOUNDED stand-in: random-history search on the real crate "
                         "(40000 histories of at most 120 operations over at most 48 items, both queue kinds)\n")
                for key, why in sel.get("undecided_functions", []):
                    fh.write("  undecided: function %s (%s)\n" % (key, why))
                for f in (masked + undecided)[:10]:
                    fh.write("  undecided: %s in %s\n" % (f["msg"], f["fn"]))
                fh.write("\nfailing input found by harness/cex on the real code (debug build of the crate at %s):\n%s\n" % (os.environ.get("PQ_REPO", "/repo"), cex))
            lines.append("VIOLATION property=%s replay=%s" % (pid, rpath))
            lines.append("  (bounded stand-in: the verifier could not decide this tree; a failing history was found on the real code)")
            extra["bounded_stand_in"] = "random-history search, 40000 histories <= 120 operations"
        U = "UNDECIDED" if rc == 2 else "NOTE: deductive check undecided,"
        for f in masked[:10]:
            lines.append(U + " property=%s: its obligations in %s may be masked by the failure of %s (%s), which the verifier assumes afterwards"
                         % (pid, f["fn"], f["clause"] or "a built-in obligation", f["msg"]))
        for key, why in sel.get("undecided_functions", []):
            lines.append(U + " property=%s: function %s could not be brought into the verifier's input (%s); its contract is assumed for callers" % (pid, key, why))
        for f in undecided[:10]:
            lines.append(U + " property=%s: %s in %s (%s)" % (pid, f["msg"], f["fn"], f["kind"]))
    for f in others[:5]:
        lines.append("NOTE: obligation of other properties %s fails in a shared function: %s (%s)" % (",".join(f["tags"]), f["clause"] or f["fn"], f["msg"]))
    for k in selected:
        for la in m["functions"][k].get("lost_anchors", []):
            lines.append("NOTE: %s: proof hint dropped, its anchor no longer exists: %s" % (k, la))
    for k in m.get("without_record", []):
        lines.append("NOTE: function %s is not known to the overlay (new in the source): verified for built-in obligations only" % k)
    wall = time.time() - t0
    if rc == 0:
        lines.append("OK property=%s tier=%s: %d/%d obligations discharged in %d functions (%.1fs)" % (pid, tier, discharged, ob, len(selected), wall))
    if rc == 2:
        extra["undecided"] = [f["msg"] for f in undecided]
    write_evidence(pid, tier, seed, m, sel, new_viol, samples, wall, cmd=cmd,
                   extra=dict(extra, obligations=ob, discharged=max(discharged, 0)))
    print("\n".join(lines))
    return rc
