#!/usr/bin/env python3
"""roundtrip.py -- validation of the declared rewrites (DESIGN.md 2.2): apply the expression-level rewrites
(R2, R3, R7, R8, R11, R13, R14, R17) in place to a scratch copy of the crate -- plain Rust, real indexmap, no
contracts -- and run the crate's own test suite against it.  A rewrite that changed behaviour fails a test or
does not compile.  (R6, R9, R10, R12, R15, R16 concern stubs / trait plumbing and are not exercised here.)
usage: roundtrip.py [scratch-dir]   exit 0 = suite green on the rewritten crate"""
import os, re, shutil, subprocess, sys, tempfile
VERIF = os.path.dirname(os.path.dirname(os.path.abspath(__file__)))
sys.path.insert(0, os.path.join(VERIF, "tools"))
import gen


def main():
    work = sys.argv[1] if len(sys.argv) > 1 else tempfile.mkdtemp(prefix="pq-roundtrip.", dir="/tmp")
    repo = gen.REPO
    if os.path.exists(work):
        shutil.rmtree(work)
    shutil.copytree(repo, work, ignore=shutil.ignore_patterns("target", ".git"))
    srcs = gen.run_pqx()
    fns, _, _ = gen.collect(srcs)
    ovdir = os.path.join(VERIF, "contracts/overlay")
    recs, _, _ = gen.parse_overlay(sorted(os.path.join(ovdir, f) for f in os.listdir(ovdir) if f.endswith(".ov")))
    ctx = gen.Ctx()
    ctx.plain = True
    ctx.assoc = {}
    edits = {}
    log = {}
    for fn in fns:
        rec = recs.get(fn.key)
        if rec is None or rec.attrs.get("mode") in ("skip",):
            continue
        plain = gen.FnRec(fn.key, "roundtrip")
        # keep only the directives that are meaningful in plain Rust
        plain.rw = [d for d in rec.rw if d[0] in ("comb", "keep_for", "op_eq", "collect_ty")]
        r = gen.Renderer(fn, plain, ctx)
        try:
            sig, body = r.render_fn()
        except gen.Undecided as e:
            print("roundtrip: cannot render %s: %s" % (fn.key, e))
            return 2
        if r.log:
            a = fn.node["fn_token"][0]
            b = fn.node["body"][1]
            edits.setdefault(fn.src.rel, []).append((a, b, sig + body))
            log[fn.key] = r.log
    for rel, es in edits.items():
        data = open(os.path.join(repo, rel), "rb").read()
        for a, b, txt in sorted(es, reverse=True):
            data = data[:a] + txt.encode() + data[b:]
        open(os.path.join(work, rel), "wb").write(data)
    env = dict(os.environ, CARGO_NET_OFFLINE="true", CARGO_TARGET_DIR=os.path.join(work, "target"))
    r = subprocess.run(["cargo", "test", "--offline", "--features", "serde"], cwd=work, env=env, capture_output=True, text=True)
    results = re.findall(r"test result: (\w+)\. (\d+) passed; (\d+) failed", r.stdout)
    passed = sum(int(x[1]) for x in results)
    failed = sum(int(x[2]) for x in results)
    nrw = sum(len(v) for v in log.values())
    print("roundtrip: %d functions rewritten in place (%d rewrites), cargo test --features serde on the rewritten crate: %d passed, %d failed, exit %d"
          % (len(log), nrw, passed, failed, r.returncode))
    if r.returncode != 0:
        print(r.stdout[-3000:]); print(r.stderr[-3000:])
    if len(sys.argv) <= 1:
        shutil.rmtree(work, ignore_errors=True)
    return 0 if r.returncode == 0 and failed == 0 and passed > 0 else 1


if __name__ == "__main__":
    sys.exit(main())
