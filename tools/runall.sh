#!/bin/bash
# run every check (quick tier) and print one line per property; full outputs under $OUT
OUT=${1:-/tmp/runall}; mkdir -p $OUT
cd /verif
for id in $(python3 -c "import json;print(' '.join(c['property_id'] for c in json.load(open('MANIFEST.json'))['checks']))"); do
  ( ./check $id --tier ${TIER:-quick} > $OUT/$id.out 2>&1; echo "$id rc=$? $(grep -c '^VIOLATION' $OUT/$id.out) $(tail -1 $OUT/$id.out | cut -c1-150)" ) &
  # limit parallelism
  while [ $(jobs -r | wc -l) -ge ${JOBS:-4} ]; do sleep 0.2; done
done
wait
