#!/bin/bash
# usage: tools/seedtest.sh <dir with patch.diff + seed_demo.rs> [check ids...]
# 1. confirms the seed in a scratch worktree (suite green with change, demo fails with change, passes without)
# 2. applies it to /repo, runs the checks, reverts /repo
D=$(realpath $1); shift
W=/tmp/seedchk_$$; export CARGO_TARGET_DIR=/tmp/seedchk_target
git -C /repo worktree add -q $W HEAD || exit 2
cd $W
cp $D/seed_demo.rs tests/seed_demo.rs
echo "== demo WITHOUT change:"; cargo test --offline --features serde --test seed_demo 2>&1 | grep -E "^test result|panicked|error(\[|:)" | head -5
git apply $D/patch.diff || { echo "patch does not apply"; }
echo "== demo WITH change:"; cargo test --offline --features serde --test seed_demo 2>&1 | grep -E "^test result|panicked|error(\[|:)" | head -5
rm tests/seed_demo.rs
echo "== suite WITH change:"; cargo test --offline --features serde 2>&1 | grep -E "^test result|FAILED|error(\[|:)" | head -8
cd /; git -C /repo worktree remove --force $W
echo "== checks on /repo with the change:"
git -C /repo apply $D/patch.diff
cd /verif
if [ $# -eq 0 ]; then tools/runall.sh /tmp/seedrun_$$ | sort | grep -v "rc=0" ; else for id in "$@"; do ./check $id | head -8; done; fi
git -C /repo checkout -- .
git -C /repo status --short | head -3
