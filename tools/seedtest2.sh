#!/bin/bash
# usage: tools/seedtest2.sh <dir with patch.diff + seed_demo.rs> <check id>...
# like seedtest.sh, but /repo is never touched: the checks run against the scratch worktree (PQ_REPO), so several
# seeds can be evaluated side by side.
D=$(realpath $1); shift
W=$(mktemp -d /tmp/seedchk.XXXXXX); rmdir $W; export CARGO_TARGET_DIR=$W.target
git -C /repo worktree add -q --detach $W HEAD || exit 2
cd $W
cp $D/seed_demo.rs tests/seed_demo.rs
echo "== demo WITHOUT change: $(timeout 300 cargo test --offline --features serde --test seed_demo 2>&1 | grep -E "^test result|error(\[|:)" | head -2 | tr '\n' ' ')"
git apply $D/patch.diff || echo "patch does not apply"
echo "== demo WITH change:    $(timeout 300 cargo test --offline --features serde --test seed_demo 2>&1 | grep -E "^test result|panicked|error(\[|:)|aborted|SIGABRT" | head -3 | cut -c1-150 | tr '\n' ' ')"
rm tests/seed_demo.rs
echo "== suite WITH change:   $(timeout 600 cargo test --offline --features serde 2>&1 | grep -E "^test result|FAILED|error(\[|:)" | grep -v "0 passed" | cut -c1-60 | tr '\n' ' ')"
cd /verif
for id in "$@"; do PQ_REPO=$W PQ_EVIDENCE_DIR=$W/_ev PQ_REPLAY_DIR=$W/_rp PQ_GEN_TAG=_s2 ./check $id | grep -v "^NOTE: .*proof hint dropped" | head -7 | cut -c1-330; [ -f $W/_rp/$id.replay.txt ] && grep -E "^  =>" $W/_rp/$id.replay.txt | head -2 | cut -c1-250; done
git -C /repo worktree remove --force $W; rm -rf $W.target
