#!/bin/bash
# usage: tools/seedtest3.sh <out-dir of an area agent> <N>     (changeN.diff + demoN.rs; the property it breaks is not given)
# confirms the change in a scratch worktree, then runs ALL checks against that worktree and prints every verdict != OK
D=$(realpath $1); N=$2
W=$(mktemp -d /tmp/seedchk.XXXXXX); rmdir $W; export CARGO_TARGET_DIR=$W.target
git -C /repo worktree add -q --detach $W HEAD || exit 2
cd $W
cp $D/demo$N.rs tests/seed_demo.rs
echo "== demo WITHOUT change: $(timeout 300 cargo test --offline --features serde --test seed_demo 2>&1 | grep -E "^test result|error(\[|:)" | head -2 | tr '\n' ' ')"
git apply $D/change$N.diff || echo "patch does not apply"
echo "== demo WITH change:    $(timeout 300 cargo test --offline --features serde --test seed_demo 2>&1 | grep -E "^test result|panicked|error(\[|:)|aborted|SIGABRT" | head -3 | cut -c1-150 | tr '\n' ' ')"
rm tests/seed_demo.rs
echo "== suite WITH change:   $(timeout 600 cargo test --offline --features serde 2>&1 | grep -E "^test result|FAILED|error(\[|:)" | grep -v "0 passed" | cut -c1-60 | tr '\n' ' ')"
cd /verif
for id in $(python3 -c "import json;print(' '.join(c['property_id'] for c in json.load(open('MANIFEST.json'))['checks']))"); do
  ( PQ_REPO=$W PQ_EVIDENCE_DIR=$W/_ev PQ_REPLAY_DIR=$W/_rp PQ_GEN_TAG=_s3 ${CEXOFF:+PQ_NO_CEX=1} ./check $id > $W/_$id.out 2>&1; echo "$id=$?" > $W/_$id.rc ) &
  while [ $(jobs -r | wc -l) -ge ${JOBS:-5} ]; do sleep 0.3; done
done; wait
echo "== verdicts: $(cat $W/_*.rc | tr '\n' ' ')"
for f in $W/_*.rc; do id=$(basename $f .rc | tr -d _); if grep -q "=1" $f; then grep -E "^VIOLATION|failed obligation|bounded stand-in" $W/_$id.out | head -3 | cut -c1-260; [ -f $W/_rp/$id.replay.txt ] && grep -E "^  =>" $W/_rp/$id.replay.txt | head -1 | cut -c1-200; fi; done
git -C /repo worktree remove --force $W; rm -rf $W.target
