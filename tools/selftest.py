#!/usr/bin/env python3
"""selftest.py -- detection self-test (thorough tier): every kept seeded change (/verif/seeded/*/patch.diff) and the
reverse of every `fix:` commit of /repo is applied to a scratch worktree; the checks named for it must report a
VIOLATION there.  A surviving change is a weakness of the machinery (reported, exit 3), never a property violation.
usage: selftest.py [--only <substring>] [--jobs N]"""
import json, os, subprocess, sys, tempfile, shutil
from concurrent.futures import ThreadPoolExecutor
VERIF = os.path.dirname(os.path.dirname(os.path.abspath(__file__)))

# reverse of a fix commit -> properties whose check reported the defect on the unchanged tree
# reverting this fix removes a struct field that the contracts of the repaired iterator name: the extracted text no
# longer type-checks against them and the check answers UNDECIDED (exit 2), which is accepted for this one case
EXPECTED_UNDECIDED = set()   # (the D1 revert used to be undecided: now reported through the bounded stand-in)
FIXES = {
    "c3b3122": ["C10"], "4d75919": ["C07"], "c10e3b8": ["C07"], "c200e8a": ["C09"],
    "183df72": ["C13"], "e817766": ["C13"], "29b186e": ["C15"], "1a58af3": ["C15"], "3a83d9d": ["C10"],
}


def run_case(name, make_patch, props):
    wt = tempfile.mkdtemp(prefix="pq-selftest.", dir="/tmp")
    shutil.rmtree(wt)
    subprocess.run(["git", "-C", "/repo", "worktree", "add", "-q", "--detach", wt, "HEAD"], check=True, capture_output=True)
    try:
        if not make_patch(wt):
            return name, props, "PATCH-FAILED", []
        hits, und = [], []
        for pid in props:
            env = dict(os.environ, PQ_REPO=wt, PQ_EVIDENCE_DIR=os.path.join(wt, "_ev"), PQ_REPLAY_DIR=os.path.join(wt, "_rp"),
                       PQ_GEN_TAG="_st_" + name[:20].replace("/", "_"))
            r = subprocess.run([os.path.join(VERIF, "check"), pid], cwd=VERIF, env=env, capture_output=True, text=True)
            if r.returncode == 1 and ("VIOLATION property=%s" % pid) in r.stdout:
                hits.append(pid)
            elif r.returncode == 2:
                und.append(pid)
            shutil.rmtree(os.path.join(VERIF, "gen", pid + env["PQ_GEN_TAG"]), ignore_errors=True)
        return name, props, "caught" if hits else ("UNDECIDED" if und else "SURVIVED"), hits
    finally:
        subprocess.run(["git", "-C", "/repo", "worktree", "remove", "--force", wt], capture_output=True)


def main():
    only = None
    prop = None
    jobs = 4
    a = sys.argv[1:]
    while a:
        if a[0] == "--only":
            only = a[1]; a = a[2:]
        elif a[0] == "--prop":
            prop = a[1]; a = a[2:]
        elif a[0] == "--jobs":
            jobs = int(a[1]); a = a[2:]
        else:
            a = a[1:]
    cases = []
    sd = os.path.join(VERIF, "seeded")
    for d in sorted(os.listdir(sd)):
        meta = json.load(open(os.path.join(sd, d, "meta.json")))
        patch = os.path.join(sd, d, "patch.diff")
        props = [meta.get("selftest_property", meta["property"])]
        cases.append(("seeded/" + d, (lambda wt, p=patch: subprocess.run(["git", "-C", wt, "apply", p], capture_output=True).returncode == 0), props))
    for c, props in FIXES.items():
        cases.append(("revert-" + c, (lambda wt, c=c: subprocess.run(["git", "-C", wt, "revert", "-n", c], capture_output=True).returncode == 0), props))
    if only:
        cases = [c for c in cases if only in c[0]]
    if prop:
        cases = [c for c in cases if prop in c[2]]
    bad = 0
    with ThreadPoolExecutor(max_workers=jobs) as ex:
        for name, props, verdict, hits in ex.map(lambda c: run_case(*c), cases):
            print("%-55s designated %-8s -> %s %s" % (name, ",".join(props), verdict, ",".join(hits)), flush=True)
            if verdict != "caught" and not (verdict == "UNDECIDED" and name in EXPECTED_UNDECIDED):
                bad += 1
    print("selftest: %d changes, %d not caught" % (len(cases), bad))
    return 3 if bad else 0


if __name__ == "__main__":
    sys.exit(main())
